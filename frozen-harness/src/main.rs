//! vh-frozen: serve format requests against the frozen (pinned) rustfmt sources.
//! Protocol (one JSON object per line on stdin, one per line on stdout):
//!   {"text": "...", "style_edition": 2015, "edition": 2021, "kv": [["k","v"],...], "widths": [..], "full": false}
//!   -> {"r": [[status, hash], ...]}            (status: "ok" | "ok-contained-panic" | "parse" | "err" | "panic")
//!   with "full": true -> {"r": [[status, hash, text], ...]}
#![feature(rustc_private)]
extern crate rustc_driver;

use std::io::{BufRead, Write};
use std::panic::{self, AssertUnwindSafe};

use rustfmt_nightly::{Config, Edition, EmitMode, Input, Session, StyleEdition, Verbosity};
use serde_json::{json, Value};

fn style_edition(y: u64) -> StyleEdition {
    match y {
        2015 => StyleEdition::Edition2015,
        2018 => StyleEdition::Edition2018,
        2021 => StyleEdition::Edition2021,
        2024 => StyleEdition::Edition2024,
        _ => StyleEdition::Edition2027,
    }
}
fn edition(y: u64) -> Edition {
    match y {
        2015 => Edition::Edition2015,
        2018 => Edition::Edition2018,
        2021 => Edition::Edition2021,
        _ => Edition::Edition2024,
    }
}

fn hash64(s: &str) -> u64 {
    let mut h: u64 = 0xcbf29ce484222325;
    for b in s.as_bytes() {
        h ^= *b as u64;
        h = h.wrapping_mul(0x100000001b3);
    }
    h
}

static PANICS: std::sync::atomic::AtomicUsize = std::sync::atomic::AtomicUsize::new(0);

fn run(text: &str, se: u64, ed: u64, kv: &[(String, String)], width: u64) -> (&'static str, String) {
    let mut c = Config::default_for_possible_style_edition(Some(style_edition(se)), None, None);
    c.set().style_edition(style_edition(se));
    c.set().edition(edition(ed));
    c.set().emit_mode(EmitMode::Stdout);
    c.set().verbose(Verbosity::Quiet);
    c.set().show_parse_errors(false);
    c.override_value("max_width", &width.to_string());
    for (k, v) in kv {
        c.override_value(k, v);
    }
    let mut out: Vec<u8> = Vec::new();
    let before = PANICS.load(std::sync::atomic::Ordering::SeqCst);
    let res = panic::catch_unwind(AssertUnwindSafe(|| {
        let mut session = Session::new(c, Some(&mut out));
        let r = session.format(Input::Text(text.to_string()));
        (r.is_ok(), session.has_parsing_errors())
    }));
    let contained = PANICS.load(std::sync::atomic::Ordering::SeqCst) != before;
    match res {
        Err(_) => ("panic", String::new()),
        Ok((false, _)) => ("err", String::from_utf8_lossy(&out).into_owned()),
        Ok((true, true)) => ("parse", String::from_utf8_lossy(&out).into_owned()),
        // the pinned release panicked while formatting this input and contained the panic (macro
        // formatting): it did not "format without error", the text it left behind is not a reference
        Ok((true, false)) if contained => ("ok-contained-panic", String::from_utf8_lossy(&out).into_owned()),
        Ok((true, false)) => ("ok", String::from_utf8_lossy(&out).into_owned()),
    }
}

fn main() {
    panic::set_hook(Box::new(|_| {
        PANICS.fetch_add(1, std::sync::atomic::Ordering::SeqCst);
    }));
    let stdin = std::io::stdin();
    // rustfmt echoes a crate-level `#![rustfmt::skip]` standard input straight to the process's
    // stdout: keep the protocol on a private descriptor and send fd 1 to /dev/null
    let mut out = unsafe {
        use std::os::fd::FromRawFd;
        let proto = libc::dup(1);
        let devnull = libc::open(b"/dev/null\0".as_ptr() as *const libc::c_char, libc::O_WRONLY);
        libc::dup2(devnull, 1);
        std::fs::File::from_raw_fd(proto)
    };
    for line in stdin.lock().lines() {
        let Ok(line) = line else { break };
        let Ok(v) = serde_json::from_str::<Value>(&line) else {
            writeln!(out, "{}", json!({"error": "bad request"})).unwrap();
            out.flush().unwrap();
            continue;
        };
        let text = v["text"].as_str().unwrap_or("");
        let se = v["style_edition"].as_u64().unwrap_or(2015);
        let ed = v["edition"].as_u64().unwrap_or(2021);
        let kv: Vec<(String, String)> = v["kv"]
            .as_array()
            .map(|a| {
                a.iter()
                    .map(|p| (p[0].as_str().unwrap_or("").to_string(), p[1].as_str().unwrap_or("").to_string()))
                    .collect()
            })
            .unwrap_or_default();
        let full = v["full"].as_bool().unwrap_or(false);
        let mut r = vec![];
        for w in v["widths"].as_array().cloned().unwrap_or_default() {
            let (st, t) = run(text, se, ed, &kv, w.as_u64().unwrap_or(100));
            if full {
                r.push(json!([st, hash64(&t), t]));
            } else {
                r.push(json!([st, hash64(&t)]));
            }
        }
        writeln!(out, "{}", json!({"r": r})).unwrap();
        out.flush().unwrap();
    }
}
