#!/usr/bin/env python3
"""C06 - Check mode is read-only and exact; all emit modes agree on the text.

Explicit-state exploration of a small state machine, every step executed on the REAL rustfmt binary.

  state        (bytes, mtime) of every file of a scratch tree
  operations   one rustfmt invocation each (always `--color never`):
               path inputs : files, -q, -l, --backup, --backup -l, --emit files,
                             --check, --check --files-with-diff, --check -q, --check --backup,
                             --emit stdout, --emit stdout -q, --emit json, --emit checkstyle
               stdin inputs: (none), -q, --backup, --emit stdout, --emit json, --emit checkstyle,
                             --check, --check -l, --emit files (an error)
  trees        single (f.rs) | pair (x.rs y.rs, both on the command line) | modtree (main.rs with
               `mod a; mod b;`, only main.rs on the command line)
  file classes F formatted | U needs a rewrite (two separate hunks, line counts change) |
               C formatted but CRLF | N formatted but no final newline | B formatted + trailing blank
               lines | D unformatted and CRLF
  histories    every single operation and EVERY ordered pair of operations from each initial state
  configs      default | --config newline_style=Unix | --config newline_style=Windows
All mtimes are set to common.FIXED_MTIME before EACH operation, so "touched" is observable.

The oracle does not read rustfmt's source at run time. The reference formatted text R(x) of a file
content x is what `rustfmt < x` prints (the "text produced for the same source on standard input" of
the property); every other mode has to agree with it, and the modes that are related by the property
(--check / -l / --backup vs files mode) are compared with an actual files-mode run from the same state.
"""

import base64
import html
import itertools
import json
import os
import re
import shutil
import sys
import time

sys.path.insert(0, os.path.dirname(os.path.abspath(__file__)))
import common  # noqa: E402
from common import FIXED_MTIME, Run, Scratch, base_env, require_bins  # noqa: E402

PROP = "C06"
# mutation demonstrations only: judge another build of the subject (default: the build made by ./check)
RUSTFMT = os.environ.get("C06_RUSTFMT_BIN") or common.RUSTFMT
FIXED_NS = FIXED_MTIME * 1_000_000_000

RULE = (
    "a history is non-trivial when its initial tree contains >= 1 file whose reference formatted text differs "
    "from its bytes (a rewrite is needed), or when its second step starts from a state that the first step changed"
)
ASSUMPTIONS = [
    "reference text R(x) = stdout of `rustfmt --color never [--config ...] < x` run in an empty directory",
    "report-based modes (check diff, json, checkstyle) are compared line for line (CR before LF ignored, a final "
    "newline counts as one more empty line), text-carrying modes (stdout, files, stdin) byte for byte",
    "the exit-status clause of --check is applied to path inputs with empty stderr only",
    "all inputs are valid Rust; error paths are C05's business (the one error operation, `--emit files` on "
    "stdin, is only required to be read-only)",
    "ModifiedLines is a library-only emit mode and is not reachable from the CLI; it is not explored here",
]

ENV = None
SCRATCH = None


def die(msg):
    print(f"machinery error: {msg}", file=sys.stderr)
    if SCRATCH is not None:
        SCRATCH.cleanup()
    sys.stdout.flush()
    sys.stderr.flush()
    os._exit(2)


# --------------------------------------------------------------------------------------- corpus


def _formatted(tag, mods):
    head = "".join(f"mod {m};\n" for m in mods) + ("\n" if mods else "")
    ty = tag.capitalize()
    return (
        head
        + f"pub fn {tag}_one(x: u32) -> u32 {{\n    let y = x + 1;\n    y\n}}\n\n"
        + f"pub struct {ty} {{\n    pub a: u32,\n    pub b: u32,\n}}\n\n"
        + f"pub fn {tag}_two() {{\n    let v = vec![1, 2, 3];\n    drop(v);\n}}\n"
        + "\nuse std::fmt;\nuse std::io;\n"
    )


def _unformatted(tag, mods):
    head = "".join(f"mod {m};\n" for m in mods) + ("\n" if mods else "")
    ty = tag.capitalize()
    return (
        head
        + f"pub fn {tag}_one(x:u32)->u32{{let y=x+1;y}}\n\n"
        + f"pub struct {ty} {{\n    pub a: u32,\n    pub b: u32,\n}}\n\n"
        + f"pub fn {tag}_two()\n{{\nlet v = vec![1,2,3];\n    drop(v);\n}}\n"
        # two imports in the wrong order: reordering yields a deletion-only and an insertion-only hunk AFTER
        # hunks that changed the number of lines (original and formatted line numbers differ there)
        + "\nuse std::io;\nuse std::fmt;\n"
    )


CLASSES = ["F", "U", "C", "N", "B", "D"]
# files without a single token: explored in the named states of every tree (both tiers), not in the full product
EXTRA_CLASSES = ["E", "W"]
ALL_CLASSES = CLASSES + EXTRA_CLASSES
CLASS_DOC = {
    "F": "formatted",
    "U": "needs a rewrite",
    "C": "formatted, CRLF line endings",
    "N": "formatted, no final newline",
    "B": "formatted + two trailing blank lines",
    "D": "needs a rewrite, CRLF line endings",
    "E": "no items at all (zero bytes, or only the module declarations the tree needs)",
    "W": "no items, three blank lines",
}


def content(tag, mods, cls):
    f = _formatted(tag, mods)
    u = _unformatted(tag, mods)
    if cls == "F":
        s = f
    elif cls == "U":
        s = u
    elif cls == "C":
        s = f.replace("\n", "\r\n")
    elif cls == "N":
        s = f[:-1]
    elif cls == "B":
        s = f + "\n\n"
    elif cls == "D":
        s = u.replace("\n", "\r\n")
    elif cls == "E":
        s = "".join(f"mod {m};\n" for m in mods)
    elif cls == "W":
        s = "".join(f"mod {m};\n" for m in mods) + "\n\n\n"
    else:
        raise ValueError(cls)
    return s.encode()


class Tree:
    def __init__(self, name, files, targets):
        self.name = name
        self.files = files  # [(rel, tag, mods, role)]
        self.targets = targets
        self.rels = [f[0] for f in files]
        self.role = {f[0]: f[3] for f in files}

    def build(self, classes):
        return {rel: content(tag, mods, c) for (rel, tag, mods, _r), c in zip(self.files, classes)}


TREES = {
    "single": Tree("single", [("f.rs", "f", (), "root")], ["f.rs"]),
    "pair": Tree("pair", [("x.rs", "x", (), "root"), ("y.rs", "y", (), "root")], ["x.rs", "y.rs"]),
    "modtree": Tree(
        "modtree",
        [("main.rs", "main", ("a", "b"), "root"), ("a.rs", "a", (), "child"), ("b.rs", "b", (), "child")],
        ["main.rs"],
    ),
}

# label of every corpus content (to give reached states a readable, stable name)
LABEL = {}
for _t in TREES.values():
    for (_rel, _tag, _mods, _role) in _t.files:
        for _c in ALL_CLASSES:
            LABEL.setdefault(content(_tag, _mods, _c), _c)


def cls_of(b):
    return LABEL.get(b) or ("sha:" + common.sha(b))


def state_label(tree, files):
    parts = [f"{rel[:-3]}={cls_of(files[rel])}" if rel in files else f"{rel[:-3]}=absent" for rel in tree.rels]
    extra = sorted(r for r in files if r not in tree.rels)
    s = ",".join(parts)
    if extra:
        s += " +" + "+".join(extra)
    return s


# ------------------------------------------------------------------------------------ operations


class Op:
    def __init__(self, name, args, kind, stdin=False, writes=False, l=False, q=False, backup=False):
        self.name = name
        self.args = args
        self.kind = kind  # files | check | stdout | json | checkstyle | error
        self.stdin = stdin
        self.writes = writes
        self.l = l
        self.q = q
        self.backup = backup


OPS = [
    # core alphabet (quick tier: every ordered pair of these)
    Op("files", [], "files", writes=True),
    Op("--check", ["--check"], "check"),
    Op("--emit stdout", ["--emit", "stdout"], "stdout"),
    Op("--emit json", ["--emit", "json"], "json"),
    Op("--emit checkstyle", ["--emit", "checkstyle"], "checkstyle"),
    Op("-l", ["-l"], "files", writes=True, l=True),
    Op("--check --files-with-diff", ["--check", "--files-with-diff"], "check", l=True),
    Op("--backup", ["--backup"], "files", writes=True, backup=True),
    Op("-q", ["-q"], "files", writes=True, q=True),
    Op("--backup -l", ["--backup", "-l"], "files", writes=True, l=True, backup=True),
    Op("<stdin", [], "stdout", stdin=True),
    Op("--check <stdin", ["--check"], "check", stdin=True),
    Op("--emit json <stdin", ["--emit", "json"], "json", stdin=True),
    Op("--emit checkstyle <stdin", ["--emit", "checkstyle"], "checkstyle", stdin=True),
    # flag variants (quick tier: alone, before files, before --check and after files; thorough: every pair)
    Op("--emit files", ["--emit", "files"], "files", writes=True),
    Op("--check -q", ["--check", "-q"], "check", q=True),
    Op("--check --backup", ["--check", "--backup"], "check", backup=True),
    Op("--emit stdout -q", ["--emit", "stdout", "-q"], "stdout", q=True),
    Op("--emit stdout <stdin", ["--emit", "stdout"], "stdout", stdin=True),
    Op("--check -l <stdin", ["--check", "-l"], "check", stdin=True, l=True),
    Op("-q <stdin", ["-q"], "stdout", stdin=True, q=True),
    Op("--backup <stdin", ["--backup"], "stdout", stdin=True, backup=True),
    Op("--emit files <stdin", ["--emit", "files"], "error", stdin=True),
]
N_CORE = 14
OP = {o.name: o for o in OPS}

CFGS = {
    "default": [],
    "unix": ["--config", "newline_style=Unix"],
    "windows": ["--config", "newline_style=Windows"],
}

# the histories the property names explicitly (always explored, for every configuration)
NAMED = [("--check", "files"), ("files", "--check"), ("files", "files")]


# -------------------------------------------------------------------------------- tree handling


def write_state(root, files):
    if os.path.exists(root):
        shutil.rmtree(root)
    os.makedirs(root)
    common.write_tree(root, files)


def read_state(root):
    """{rel: (bytes, mtime_ns)} of every file below root."""
    out = {}
    for d, _dirs, fs in os.walk(root):
        for f in fs:
            p = os.path.join(d, f)
            rel = os.path.relpath(p, root)
            if os.path.islink(p):
                out[rel] = (b"link:" + os.readlink(p).encode(), 0)
            else:
                out[rel] = (common.read(p), os.stat(p).st_mtime_ns)
    return out


def invoke(root, tree, op, cfg, stdin_bytes):
    argv = [RUSTFMT, "--color", "never"] + CFGS[cfg] + op.args
    if not op.stdin:
        argv += [os.path.join(root, t) for t in tree.targets]
    return common.run(argv, cwd=root, env=ENV, stdin=stdin_bytes if op.stdin else b"")


# --------------------------------------------------------------------------- reference and caches

_REF = {}
_FILES_REF = {}
_EMPTY = None


def reference(b, cfg):
    """R(b): the text rustfmt prints for b given on standard input (None if that run reports an error)."""
    key = (b, cfg)
    if key not in _REF:
        rc, out, err = common.run([RUSTFMT, "--color", "never"] + CFGS[cfg], cwd=_EMPTY, env=ENV, stdin=b)
        _REF[key] = out if (rc == 0 and not err) else None
    return _REF[key]


def files_mode_changes(tree, files, cfg, workdir):
    """Set of files whose BYTES a plain files-mode run changes when started from `files` (observed on the binary),
    or None if that run reported an error."""
    key = (tree.name, tuple(sorted(files.items())), cfg)
    if key not in _FILES_REF:
        root = workdir + "-ref"
        write_state(root, files)
        common.set_mtimes(root)
        rc, _out, err = invoke(root, tree, OP["files"], cfg, None)
        post = read_state(root)
        shutil.rmtree(root, ignore_errors=True)
        if rc != 0 or err:
            _FILES_REF[key] = None
        else:
            _FILES_REF[key] = frozenset(r for r in set(files) | set(post) if post.get(r, (None,))[0] != files.get(r))
    return _FILES_REF[key]


# ------------------------------------------------------------------------------ line model, parsers


def lines_of(b):
    """The line sequence the report-based emitters work on (`diff::lines`): split at LF, a CR before the LF is
    dropped, and a final newline yields one more, empty, line."""
    s = b.decode("utf-8", "replace")
    if s == "":
        return []
    parts = s.split("\n")
    return [p[:-1] if p.endswith("\r") else p for p in parts[:-1]] + [parts[-1]]


class ReportError(Exception):
    pass


def splice(orig, edits):
    """edits: [(begin_line_1based, removed_lines, inserted_lines)] ascending. Returns the new line list; raises
    ReportError when a removed/context line does not match the original."""
    out, pos = [], 0
    for begin, removed, inserted in edits:
        idx = begin - 1
        if idx < pos or idx + len(removed) > len(orig):
            raise ReportError(f"edit at line {begin} (removing {len(removed)}) is out of range / overlaps")
        if orig[idx : idx + len(removed)] != removed:
            raise ReportError(f"edit at line {begin}: lines to remove {removed!r} are not the original's {orig[idx:idx + len(removed)]!r}")
        out += orig[pos:idx]
        out += inserted
        pos = idx + len(removed)
    return out + orig[pos:]


RE_DIFF_HDR = re.compile(r"^Diff in (.*):(\d+):$")
RE_NL = re.compile(r"^Incorrect newline style in (.*)$")


def parse_check(out):
    """-> ({name: [(begin, removed+context lines, inserted+context lines)]}, {names with newline-style note})"""
    text = out.decode("utf-8", "replace")
    rows = text.split("\n")
    if rows and rows[-1] == "":
        rows.pop()
    hunks, nl, cur = {}, set(), None
    for r in rows:
        m = RE_DIFF_HDR.match(r)
        if m:
            cur = [int(m.group(2)), [], []]
            hunks.setdefault(m.group(1), []).append(cur)
            continue
        m = RE_NL.match(r)
        if m:
            nl.add(m.group(1))
            cur = None
            continue
        if cur is None or r[:1] not in (" ", "+", "-"):
            raise ReportError(f"unparsable line in --check output: {r!r}")
        if r[0] in " -":
            cur[1].append(r[1:])
        if r[0] in " +":
            cur[2].append(r[1:])
    return {k: [tuple(h) for h in v] for k, v in hunks.items()}, nl


def parse_json(out):
    try:
        doc = json.loads(out.decode("utf-8"))
    except ValueError as e:
        raise ReportError(f"json report does not parse: {e}")
    res = {}
    if not isinstance(doc, list):
        raise ReportError("json report is not a list")
    for ent in doc:
        edits = []
        for blk in ent["mismatches"]:
            removed = blk["original"].split("\n")[:-1]
            inserted = blk["expected"].split("\n")[:-1]
            # the block says "lines original_begin_line..=original_end_line become `expected`"; a block that removes
            # (inserts) nothing has no meaningful end line (end == begin in this snapshot), so only non-empty sides are checked
            for side, lines_, b, e in (("original", removed, blk["original_begin_line"], blk["original_end_line"]),
                                       ("expected", inserted, blk["expected_begin_line"], blk["expected_end_line"])):
                if lines_ and e != b + len(lines_) - 1:
                    raise ReportError(f"json block {side}_begin_line={b} {side}_end_line={e} but its {side} text has {len(lines_)} lines")
            edits.append((blk["original_begin_line"], removed, inserted, blk["expected_begin_line"]))
        res.setdefault(ent["name"], []).extend(edits)
    return res


RE_CS_FILE = re.compile(r'<file name="(.*?)">(.*?)</file>', re.S)
RE_CS_ERR = re.compile(r'<error line="(\d+)" severity="warning" message="Should be `(.*?)`" />', re.S)


def parse_checkstyle(out):
    text = out.decode("utf-8", "replace")
    if "<checkstyle" not in text or "</checkstyle>" not in text:
        raise ReportError("checkstyle report has no <checkstyle> element")
    res = {}
    for m in RE_CS_FILE.finditer(text):
        pairs = [(int(e.group(1)), html.unescape(e.group(2))) for e in RE_CS_ERR.finditer(m.group(2))]
        res.setdefault(html.unescape(m.group(1)), []).extend(pairs)
    return res


def parse_stdout(out, names):
    """Split `--emit stdout` output at the `name:\\n\\n` headers. -> {name: [text, ...]}; raises if there is
    text before the first header."""
    marks = []
    for n in names:
        hdr = (n + ":\n\n").encode()
        i = out.find(hdr)
        while i != -1:
            if i == 0 or out[i - 1 : i] == b"\n":
                marks.append((i, len(hdr), n))
            i = out.find(hdr, i + 1)
    marks.sort()
    if out and (not marks or marks[0][0] != 0):
        raise ReportError("stdout output does not start with a `path:` header")
    res = {}
    for k, (pos, hl, n) in enumerate(marks):
        end = marks[k + 1][0] if k + 1 < len(marks) else len(out)
        res.setdefault(n, []).append(out[pos + hl : end])
    return res


def names_listed(out):
    """Files named by -l / --files-with-diff output: one per line. The check-mode emitter names a file whose only
    difference is the newline style as `Incorrect newline style in <path>`; the property does not fix the
    format of the listing, so that line is read as naming <path>."""
    res = set()
    for x in out.decode("utf-8", "replace").split("\n"):
        if x:
            m = RE_NL.match(x)
            res.add(m.group(1) if m else x)
    return res


def l_mismatch(flag, named, want, verb):
    if want and not named:
        return f"{flag} named no file although files {verb}"
    if want - named:
        return f"{flag} omitted a file that {verb.replace('were', 'was')}"
    return f"{flag} named a file that is not among the files that {verb}"


def is_subsequence(small, big):
    it = iter(big)
    return all(any(x == y for y in it) for x in small)


# ------------------------------------------------------------------------------------- the oracle


def b64(b):
    return base64.b64encode(b).decode()


def show(b, limit=600):
    if b is None:
        return None
    s = b.decode("utf-8", "replace") if isinstance(b, bytes) else str(b)
    return s if len(s) <= limit else s[:limit] + f"...[{len(s)} chars]"


def check_step(tree, cfg, op, root, pre, post, rc, out, err, stdin_bytes, workdir):
    """Evaluate every clause of the property that applies to one executed step.
    pre/post: {rel: (bytes, mtime_ns)}. Returns [(scope, key, what, info)] where scope is 'file' or 'tree'."""
    v = []
    pre_b = {r: x[0] for r, x in pre.items()}
    post_b = {r: x[0] for r, x in post.items()}
    absname = {rel: os.path.join(root, rel) for rel in tree.rels}
    relname = {a: r for r, a in absname.items()}
    error_reported = bool(err) or rc not in (0, 1)

    def file_key(rel):
        return f"{tree.role[rel]}[{cls_of(pre_b[rel])}]"

    # (a) non-writing modes leave every file's bytes and mtime alone, and create / delete nothing
    if not op.writes:
        if pre != post:
            diffs = {}
            for r in sorted(set(pre) | set(post)):
                if pre.get(r) != post.get(r):
                    a, b = pre.get(r), post.get(r)
                    diffs[r] = {
                        "bytes_changed": (a or (None,))[0] != (b or (None,))[0],
                        "mtime_before": a and a[1],
                        "mtime_after": b and b[1],
                        "existed": a is not None,
                        "exists": b is not None,
                    }
            v.append(("tree", None, "non-writing mode modified the tree", {"changed": diffs}))

    refs = {rel: reference(pre_b[rel], cfg) for rel in tree.rels if rel in pre_b}

    # (d) files mode
    if op.kind == "files" and not error_reported and rc == 0:
        changed = set()
        for rel in tree.rels:
            ref = refs[rel]
            bytes_changed = post_b.get(rel) != pre_b[rel]
            touched = bytes_changed or post.get(rel, (None, None))[1] != pre[rel][1]
            if bytes_changed:
                changed.add(rel)
            if ref is None:
                continue
            needs = ref != pre_b[rel]
            if touched and not needs:
                v.append(("file", file_key(rel), "files mode touched a file whose formatted text equals what was on disk",
                          {"file": rel, "bytes_changed": bytes_changed, "mtime_after": post.get(rel, (None, None))[1]}))
            if post_b.get(rel) != ref:
                what = ("text written by files mode differs from the text printed for the same source on stdin" if bytes_changed else
                        "files mode left a file as it was although the text printed for the same source on stdin differs from it")
                v.append(("file", file_key(rel), what,
                          {"file": rel, "on_disk_after": show(post_b.get(rel)), "stdin_text": show(ref),
                           "rewritten": bytes_changed, "touched": touched}))
        # files that are not sources (earlier backups) stay as they are
        want_bk = {rel[:-3] + ".bk" for rel in changed} if op.backup else set()
        for r in sorted(set(pre) - set(tree.rels) - want_bk):
            if r in post and post[r] != pre[r]:
                v.append(("tree", None, "files mode modified a file that is not a source file", {"file": r}))
        written = {r for r in post if r not in tree.rels and post[r] != pre.get(r)}
        if op.backup:
            have_bk = {r for r in written if r.endswith(".bk")}
            if have_bk != want_bk:
                v.append(("tree", None, "--backup did not write a .bk for exactly the rewritten files",
                          {"rewritten": sorted(changed), "backups_written": sorted(have_bk)}))
        new = (set(post) - set(pre)) - want_bk
        if new:
            v.append(("tree", None, "files mode created an unexpected file", {"new": sorted(new)}))
        gone = set(pre) - set(post)
        if gone:
            v.append(("tree", None, "files mode deleted a file", {"gone": sorted(gone)}))
        # What `-l` prints together with --backup is outside the property (it only quantifies over
        # "with and without -l / --backup"); this snapshot prints nothing there, which is not judged.
        if op.l and not op.backup:
            named = names_listed(out)
            want = {absname[r] for r in changed}
            if named != want:
                v.append(("argv", None, l_mismatch("-l", named, want, "were rewritten"),
                          {"named": sorted(named), "rewritten": sorted(want)}))

    # (b) exit status of --check, path inputs only, no error reported
    if op.kind == "check" and not op.stdin and not error_reported:
        would = files_mode_changes(tree, pre_b, cfg, workdir)
        if would is not None:
            want_rc = 1 if would else 0
            if rc != want_rc:
                v.append(("tree", None, "--check exit status does not say whether files mode rewrites a file",
                          {"exit": rc, "expected": want_rc, "files_mode_rewrites": sorted(would)}))
            if op.l:
                named = names_listed(out)
                want = {absname.get(r, r) for r in would}
                if named != want:
                    v.append(("argv", None, l_mismatch("--check -l", named, want, "files mode rewrites"),
                              {"named": sorted(named), "files_mode_rewrites": sorted(want)}))

    # (c) text agreement
    if error_reported or op.kind in ("files", "error"):
        return v
    if op.stdin:
        subjects = {"<stdin>": (stdin_bytes, reference(stdin_bytes, cfg), "stdin")}
    else:
        subjects = {absname[rel]: (pre_b[rel], refs[rel], file_key(rel)) for rel in tree.rels}

    def per_subject(fn, what):
        for name, (orig, ref, key) in subjects.items():
            if ref is None:
                continue
            try:
                problem = fn(name, orig, ref)
            except ReportError as e:
                problem = {"report_error": str(e)}
            if problem:
                problem["file"] = relname.get(name, name)
                problem["expected_text"] = show(ref)
                v.append(("file", key, what, problem))

    try:
        if op.kind == "stdout":
            if op.stdin:
                if out != subjects["<stdin>"][1]:
                    v.append(("file", "stdin", "text printed for stdin input differs from the reference run on the same text",
                              {"stdout": show(out), "expected_text": show(subjects["<stdin>"][1])}))
            elif op.q:
                texts = [s[1] for s in subjects.values()]
                if None not in texts and not any(b"".join(p) == out for p in itertools.permutations(texts)):
                    v.append(("tree", None, "--emit stdout -q did not print the concatenation of the formatted texts",
                              {"stdout": show(out, 2000)}))
            else:
                got = parse_stdout(out, list(subjects))

                def f(name, orig, ref):
                    t = got.get(name, [])
                    if len(t) != 1:
                        return {"sections_printed": len(t)}
                    if t[0] != ref:
                        return {"stdout_text": show(t[0])}

                per_subject(f, "text printed by --emit stdout differs from the text printed for the same source on stdin")
        elif op.kind == "check" and not op.l:
            hunks, _nl = parse_check(out)
            unknown = set(hunks) - set(subjects)
            if unknown:
                v.append(("tree", None, "--check reported a file that is not part of the input", {"names": sorted(unknown)}))

            def f(name, orig, ref):
                implied = splice(lines_of(orig), hunks.get(name, []))
                if implied != lines_of(ref):
                    return {"implied_lines": implied[:40], "hunks": hunks.get(name, [])[:6]}

            per_subject(f, "text implied by the --check diff differs from the formatted text")
        elif op.kind == "json":
            rep = parse_json(out)
            unknown = set(rep) - set(subjects)
            if unknown:
                v.append(("tree", None, "json report names a file that is not part of the input", {"names": sorted(unknown)}))

            def f(name, orig, ref):
                edits = rep.get(name, [])
                implied = splice(lines_of(orig), [(b, r, i) for b, r, i, _e in edits])
                want = lines_of(ref)
                if implied != want:
                    return {"implied_lines": implied[:40], "blocks": edits[:6]}
                for _b, _r, ins, eb in edits:
                    if want[eb - 1 : eb - 1 + len(ins)] != ins:
                        return {"block_expected_begin_line": eb, "block_expected": ins,
                                "formatted_there": want[eb - 1 : eb - 1 + len(ins)]}

            per_subject(f, "text implied by the json report differs from the formatted text")
        elif op.kind == "checkstyle":
            rep = parse_checkstyle(out)
            unknown = set(rep) - set(subjects)
            if unknown:
                v.append(("tree", None, "checkstyle report names a file that is not part of the input", {"names": sorted(unknown)}))

            def f(name, orig, ref):
                pairs = rep.get(name, [])
                want = lines_of(ref)
                listed = set()
                for ln, text in pairs:
                    if not (1 <= ln <= len(want)) or want[ln - 1] != text:
                        return {"pair": [ln, text], "formatted_line": want[ln - 1] if 1 <= ln <= len(want) else None}
                    listed.add(ln)
                rest = [x for i, x in enumerate(want, 1) if i not in listed]
                if not is_subsequence(rest, lines_of(orig)):
                    return {"pairs": pairs[:20], "problem": "formatted lines that are not listed do not all occur, in order, in the original"}

            per_subject(f, "checkstyle (line, text) pairs disagree with the formatted text")
    except ReportError as e:
        v.append(("tree", None, "report could not be read", {"error": str(e), "stdout": show(out, 1500)}))
    return v


# ------------------------------------------------------------------------------ running a history


def run_history(spec, verbose=False):
    """spec: {tree, classes | files(b64), cfg, ops:[names], idx}. Executes the history on the real binary and
    evaluates the oracle after every step."""
    tree = TREES[spec["tree"]]
    cfg = spec["cfg"]
    if "files" in spec:
        init = {r: base64.b64decode(x) for r, x in spec["files"].items()}
    else:
        init = tree.build(spec["classes"])
    ops = [OP[n] for n in spec["ops"]]
    workdir = SCRATCH.path(f"h{os.getpid()}-{spec.get('idx', 0)}")
    root = workdir
    write_state(root, init)
    root = os.path.realpath(root)
    init_label = state_label(tree, init)
    hist_name = ";".join(o.name for o in ops)
    res = {"violations": [], "states": set(), "transitions": 0, "stderr_runs": 0, "nontrivial": False,
           "rewrites": 0, "observed_effect": False, "steps": [], "abnormal": []}
    needs_any = any(reference(b, cfg) is not None and reference(b, cfg) != b for b in init.values())
    res["nontrivial"] = needs_any
    stdin_rel = tree.targets[0]
    prev_files_ok = False
    first_changed = False
    for k, op in enumerate(ops):
        common.set_mtimes(root)
        pre = read_state(root)
        pre_b = {r: x[0] for r, x in pre.items()}
        res["states"].add((tree.name, tuple(sorted(pre_b.items()))))
        stdin_bytes = pre_b[stdin_rel] if op.stdin else None
        rc, out, err = invoke(root, tree, op, cfg, stdin_bytes)
        post = read_state(root)
        post_b = {r: x[0] for r, x in post.items()}
        res["transitions"] += 1
        if err:
            res["stderr_runs"] += 1
        if rc not in (0, 1):
            # abnormal termination is C16's business; here the run counts as "an error was reported" (only the
            # read-only clause is judged) and is tallied
            res["abnormal"].append(f"{tree.name}[{state_label(tree, pre_b)}] cfg[{cfg}] op[{op.name}] rc={rc}")
        found = check_step(tree, cfg, op, root, pre, post, rc, out, err, stdin_bytes, workdir)
        pre_label = state_label(tree, pre_b)
        changed_now = post_b != pre_b
        if changed_now:
            res["rewrites"] += 1
        # the two facts the property names for histories: after a format, --check exits 0 and a second format
        # touches nothing
        if k == 1 and prev_files_ok and not err:
            if op.kind == "check" and not op.stdin and rc != 0:
                found.append(("history", None, "--check after a format run does not exit 0", {"exit": rc, "stdout": show(out, 1500)}))
            if op.kind == "files" and rc == 0:
                t = sorted(r for r in set(pre) | set(post) if pre.get(r) != post.get(r))
                if t:
                    found.append(("history", None, "a second format run touched files", {"touched": t}))
        if k == 1 and first_changed:
            res["nontrivial"] = True
            res["observed_effect"] = True
        for scope, key, what, info in found:
            if scope == "file":
                case_id = f"{key} cfg[{cfg}] op[{op.name}]"
            elif scope == "argv":
                case_id = f"cfg[{cfg}] op[{op.name}]"
            elif scope == "tree":
                case_id = f"{tree.name}[{pre_label}] cfg[{cfg}] op[{op.name}]"
            else:
                case_id = f"{tree.name}[{init_label}] cfg[{cfg}] history[{hist_name}]"
            detail = {
                "tree": tree.name, "cfg": cfg, "history": [o.name for o in ops], "failing_step": k,
                "initial_state": init_label, "state_before_failing_step": pre_label,
                "files": {r: b64(b) for r, b in init.items()},
                "argv": ["rustfmt", "--color", "never"] + CFGS[cfg] + op.args + ([] if op.stdin else ["<root>/" + t for t in tree.targets]),
                "stdin": (stdin_rel + " (contents of)") if op.stdin else None,
                "exit": rc, "stderr": show(err), "observed": info,
            }
            res["violations"].append((case_id, what, detail))
        step = {"op": op.name, "state_before": pre_label, "exit": rc, "state_after": state_label(tree, post_b),
                "touched": sorted(r for r in set(pre) | set(post) if pre.get(r) != post.get(r))}
        if verbose:
            step["stdout"] = show(out, 3000)
            step["stderr"] = show(err, 3000)
        res["steps"].append(step)
        prev_files_ok = op.kind == "files" and rc == 0 and not err
        if k == 0:
            first_changed = changed_now
    # final state
    res["states"].add((tree.name, tuple(sorted((r, x[0]) for r, x in read_state(root).items()))))
    shutil.rmtree(workdir, ignore_errors=True)
    return res


def _worker(spec):
    try:
        r = run_history(spec)
        if r["violations"]:
            # determinism: run the failing history once more and compare the verdicts
            r2 = run_history(dict(spec, idx=f"{spec['idx']}r"))
            a = sorted((c, w) for c, w, _d in r["violations"])
            b = sorted((c, w) for c, w, _d in r2["violations"])
            if a != b:
                tree = TREES[spec["tree"]]
                cid = f"{tree.name}[{state_label(tree, tree.build(spec['classes']))}] cfg[{spec['cfg']}] history[{';'.join(spec['ops'])}]"
                det = dict(r["violations"][0][2])
                det["observed"] = {"first_run": a, "second_run": b}
                r["violations"] = [(cid, "nondeterministic", det)]
        r["states"] = {common.sha(repr(s)) for s in r["states"]}
        return r
    except Exception as e:  # machinery
        import traceback

        return {"crash": f"{type(e).__name__}: {e}\n{traceback.format_exc()}", "spec": spec}


def _init_worker():
    pass


def pmap(fn, items, jobs):
    import multiprocessing as mp

    ctx = mp.get_context("fork")
    with ctx.Pool(jobs, initializer=_init_worker) as pool:
        return pool.map(fn, items, chunksize=max(1, min(32, len(items) // (jobs * 8) or 1)))


# ------------------------------------------------------------------------------- the explored space


def named_states(tree):
    n = len(tree.files)
    out = [tuple("F" * n), tuple("U" * n)]
    if n > 1:
        out.append(tuple("F" + "U" * (n - 1)))  # mixed: root formatted, the rest not
        out.append(tuple("U" + "F" * (n - 1)))
    for c in "CNB":
        out.append(tuple(c + "F" * (n - 1)))
        if n > 1:
            out.append(tuple("F" * (n - 1) + c))
    for c in EXTRA_CLASSES:
        out.append(tuple(c + "F" * (n - 1)))
        if n > 1:
            out.append(tuple("F" * (n - 1) + c))
            out.append(tuple("U" + c * (n - 1)))
    seen, res = set(), []
    for s in out:
        if s not in seen:
            seen.add(s)
            res.append(s)
    return res


def deviation(classes):
    return sum(1 for c in classes if c != "F")


def build_space(thorough):
    """-> list of history specs, simplest first: trees by size, states by number of non-F files, single
    operations before pairs, default configuration before the others."""
    specs = []
    op_names = [o.name for o in OPS]
    singles = [(a,) for a in op_names]
    if thorough:
        pairs = [(a, b) for a in op_names for b in op_names]
    else:
        core, rest = op_names[:N_CORE], op_names[N_CORE:]
        pairs = [(a, b) for a in core for b in core]
        pairs += [h for x in rest for h in (("files", x), (x, "files"), (x, "--check"))]
    for tname in ("single", "pair", "modtree"):
        tree = TREES[tname]
        n = len(tree.files)
        if thorough:
            states = list(itertools.product(CLASSES, repeat=n)) + [st for st in named_states(tree) if any(c in EXTRA_CLASSES for c in st)]
            states = sorted(states, key=lambda s: (deviation(s), [ALL_CLASSES.index(c) for c in s]))
        else:
            states = sorted(named_states(tree), key=lambda s: (deviation(s), [ALL_CLASSES.index(c) for c in s]))
        for st in states:
            for cfg in CFGS:
                if cfg == "default":
                    # thorough: the 3-file tree gets every pair of operations up to 2 deviating files, and every
                    # single operation for all of its states
                    hs = singles + (pairs if not (thorough and n == 3 and deviation(st) > 2) else NAMED)
                else:
                    hs = singles + NAMED + ([("--backup", "--check"), ("-l", "--check --files-with-diff"), ("--check", "--backup")] if thorough else [])
                for h in hs:
                    specs.append({"tree": tname, "classes": list(st), "cfg": cfg, "ops": list(h)})
    for i, s in enumerate(specs):
        s["idx"] = i
    return specs


def setup():
    global ENV, SCRATCH, _EMPTY
    require_bins(RUSTFMT)
    ENV = base_env()
    SCRATCH = Scratch("c06")
    _EMPTY = SCRATCH.fresh("empty")
    rc, out, err = common.run([RUSTFMT, "--version"], cwd=_EMPTY, env=ENV)
    if rc != 0:
        die(f"rustfmt --version failed: rc={rc} {err[:300]!r}")


def warm_reference():
    """Reference texts of the whole corpus, computed before the workers are forked (they inherit the cache)."""
    todo = []
    for t in TREES.values():
        for (_rel, tag, mods, _role) in t.files:
            for c in ALL_CLASSES:
                for cfg in CFGS:
                    todo.append((content(tag, mods, c), cfg))
    outs = common.parallel_map(lambda x: reference(*x), todo)
    second = [(o, cfg) for o, (_b, cfg) in zip(outs, todo) if o is not None]
    common.parallel_map(lambda x: reference(*x), second)
    bad = [(cls_of(b), cfg) for (b, cfg), o in zip(todo, outs) if o is None]
    if bad:
        die(f"reference run failed for corpus contents {bad[:5]}")
    # corpus sanity: class F is what rustfmt prints for it, class U is not
    for t in TREES.values():
        for (_rel, tag, mods, _role) in t.files:
            f, u = content(tag, mods, "F"), content(tag, mods, "U")
            if reference(f, "default") != f or reference(u, "default") != f:
                die(f"corpus assumption broken: formatted text of {tag} is not what rustfmt prints "
                    f"(F stable: {reference(f, 'default') == f}, U -> F: {reference(u, 'default') == f})")


def main():
    if len(sys.argv) > 2 and sys.argv[1] == "--replay":
        setup()
        try:
            replay(sys.argv[2])
        finally:
            SCRATCH.cleanup()
        return
    run = Run(PROP, "model_checking", RULE, ASSUMPTIONS)
    setup()
    try:
        warm_reference()
        specs = build_space(run.thorough)
        jobs = int(os.environ.get("VERIF_JOBS", "0") or 0) or (os.cpu_count() or 8)
        results = pmap(_worker, specs, jobs)
    finally:
        pass
    states = set()
    seen = set()
    machinery = []
    abnormal = []
    per_tree = {}
    for spec, r in zip(specs, results):
        if "crash" in r:
            machinery.append(r["crash"])
            continue
        run.evaluated()
        run.count("traces")
        run.count("transitions", r["transitions"])
        run.count("histories_len%d" % len(spec["ops"]))
        run.count("runs_with_stderr", r["stderr_runs"])
        run.count("steps_that_rewrote_files", r["rewrites"])
        run.count("abnormal_exits", len(r["abnormal"]))
        abnormal.extend(r["abnormal"])
        if r["observed_effect"]:
            run.count("histories_whose_second_step_saw_the_first_steps_effect")
        states |= r["states"]
        tree = TREES[spec["tree"]]
        hid = f"{spec['tree']}[{''.join(spec['classes'])}] cfg[{spec['cfg']}] history[{';'.join(spec['ops'])}]"
        if r["nontrivial"]:
            run.nontrivial_case(hid)
            per_tree[spec["tree"]] = per_tree.get(spec["tree"], 0) + 1
            if len(spec["ops"]) == 2 and r["observed_effect"] and spec["cfg"] == "default":
                run.sample({"history": hid, "steps": r["steps"]}, limit=6)
        for case_id, what, detail in r["violations"]:
            if case_id == "machinery":
                machinery.append(f"{hid}: {what} {detail}")
                continue
            if (case_id, what) in seen:
                continue
            seen.add((case_id, what))
            run.violation(case_id, what, detail)
    run.counters["states"] = len(states)
    run.extra["nontrivial_per_tree"] = per_tree
    run.extra["alphabet"] = {
        "operations": [o.name for o in OPS],
        "trees": {t.name: {"files": t.rels, "command_line": t.targets} for t in TREES.values()},
        "file_classes": CLASS_DOC if run.thorough else {k: CLASS_DOC[k] for k in "FUCNB"},
        "configs": {k: " ".join(v) for k, v in CFGS.items()},
        "initial_states": "every assignment of a class to every file (pairs of operations on the 3-file tree: <= 2 files "
        "that are not class F; 3 deviating files: single operations and the named histories)" if run.thorough else
        "all F, all U, mixed (both ways), one C / N / B file (root or last child)",
        "histories": ("default config: every operation and every ordered pair of operations; " if run.thorough else
                      f"default config: every operation, every ordered pair of the first {N_CORE} operations, and "
                      "(files;x), (x;files), (x;--check) for each other operation x; ") + "other configs: every "
        "operation and the named histories (check;format, format;check, format;format"
        + (", backup;check, -l;check -l, check;backup)" if run.thorough else ")"),
    }
    SCRATCH.cleanup()
    if machinery:
        print(f"machinery error: {len(machinery)} histories could not be judged; first: {machinery[0]}", file=sys.stderr)
        sys.exit(2)
    if abnormal and not run.violations:
        print(f"machinery error: rustfmt terminated abnormally in {len(abnormal)} runs (first: {abnormal[0]}); "
              "those runs cannot be judged here (see C16)", file=sys.stderr)
        sys.exit(2)
    if run.counters.get("runs_with_stderr", 0) > run.counters.get("transitions", 0) // 4:
        print("machinery error: most runs wrote to stderr; the environment is not the expected one", file=sys.stderr)
        sys.exit(2)
    run.finish(min_nontrivial=2)


# ------------------------------------------------------------------------------------------ replay


def replay(path):
    rec = json.load(open(path))
    d = rec["detail"]
    print(f"property {rec['property']}  case {rec['case']}")
    print(f"what: {rec['what']}")
    print(f"tree {d['tree']}  initial state [{d['initial_state']}]  config {d['cfg']}  history {d['history']}")
    for r, x in d["files"].items():
        print(f"--- {r} ({len(base64.b64decode(x))} bytes)")
        print(repr(base64.b64decode(x).decode('utf-8', 'replace')))
    print(f"failing step {d['failing_step']}: {' '.join(d['argv'])}" + (f"  < {d['stdin']}" if d.get("stdin") else ""))
    print("recorded observation:", json.dumps(d["observed"], indent=1, default=str))
    warm_reference()
    spec = {"tree": d["tree"], "files": d["files"], "cfg": d["cfg"], "ops": d["history"], "idx": "replay"}
    r = run_history(spec, verbose=True)
    print("=== re-run on the current build")
    for k, s in enumerate(r["steps"]):
        print(f"step {k}: {s['op']}  from [{s['state_before']}] -> exit {s['exit']}, touched {s['touched']}, now [{s['state_after']}]")
        if s.get("stdout"):
            print("  stdout:")
            for ln in s["stdout"].split("\n"):
                print("    | " + ln)
        if s.get("stderr"):
            print("  stderr: " + s["stderr"])
    hit = False
    for case_id, what, detail in r["violations"]:
        mark = ""
        if case_id == rec["case"] and what == rec["what"]:
            hit = True
            mark = "  <== the recorded violation"
        print(f"VIOLATION {what}\n  case {case_id}{mark}")
        print("  expected vs observed: " + json.dumps(detail["observed"], indent=1, default=str).replace("\n", "\n  "))
    print("REPRODUCED" if hit else "NOT REPRODUCED (the recorded violation does not occur on this build)")
    sys.stdout.flush()
    if hit:
        SCRATCH.cleanup()
        os._exit(1)


if __name__ == "__main__":
    main()
