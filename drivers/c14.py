#!/usr/bin/env python3
"""C14 -- configuration is resolved with the documented precedence.

Bounded exhaustive exploration against the real `rustfmt` binary; the state of
the explored system is the *effective configuration of each input file*.  It is
observed in two independent ways on every state:

  (pc)   `rustfmt <options> --print-config current <PATH>`   (all options at once)
  (fmt)  formatting a probe file in place; its layout reveals tab_spaces,
         hard_tabs, max_width (two lines of known length), brace_style, the
         effective style edition (version-sorted import list) and, through
         blank_lines_upper_bound (unique per config file), WHICH file was used.

Parts (all run in both tiers, with larger bounds in `thorough`):

  A  resolve    layouts x HOME x XDG x --config-path x cwd x CLI override sets, one input file
  B  multi      1-3 input files from different directories, every order, one command line
  C  equiv      every option x every accepted value: file == `--config` (print-config + formatting)
                + fixpoint: `--print-config current|default` text fed back as a file reproduces itself
  D  alias      deprecated aliases map to their successors unless the successor is set
  E  widths     max_width x use_small_heuristics x width option {unset, below, above}:
                every printed width <= max_width; file == --config (10 processes, up to 24: the hash
                order in which `--config` keys are applied is not controllable from outside)
                == width option in the file + `--config max_width=N`

The reference model (`discovery_chain`, `a_model`, `effective`, `render_probe`) is written from
the property text, Configurations.md, README.md and `rustfmt --help`; nothing is taken from
src/config.  Tables that are *data* of the subject (option names, accepted enum variants, the
defaults of each style edition) are read from `--help=config` and from the simplest possible
state (one `style_edition = "N"` line in the file's own directory, cross-checked against
`--style-edition N` and `--config style_edition=N` in an empty tree: see `tables`).

usage: c14.py quick|thorough
       c14.py --replay <file>
"""

import itertools
import json
import os
import re
import shutil
import sys
import threading

sys.path.insert(0, os.path.dirname(os.path.abspath(__file__)))
import common  # noqa: E402
from common import RUSTFMT, Run, Scratch, base_env, require_bins  # noqa: E402

PROP = "C14"

# Testing aid (mutation checks of the driver itself): run another build.  Never set by ./check.
if os.environ.get("VERIF_C14_SUBJECT"):
    RUSTFMT = os.environ["VERIF_C14_SUBJECT"]
    print(f"[C14] WARNING: subject overridden: {RUSTFMT}", file=sys.stderr)

RULE = (
    "a state (layout, HOME/XDG, --config-path, cwd, CLI override set, input order) is non-trivial when at "
    ">= 2 configuration sources present in it (config files anywhere in the layout, CLI flags, --config keys) "
    "set the same option to different values; for the option-table parts (equiv/alias/widths) when the value "
    "set differs from the default, i.e. the source disagrees with the built-in default"
)
ASSUMPTIONS = [
    "nightly build of the subject (unstable options accepted); HOME and XDG_CONFIG_HOME=$HOME/.config are "
    "per-case scratch directories, nothing else is inherited from the environment",
    "no ancestor of the scratch root contains a rustfmt.toml/.rustfmt.toml (checked, exit 2 otherwise)",
    "the order in which several `--config` keys are applied is chosen by the subject per process (HashMap); "
    "it is owned by repetition: every state with >= 2 keys is run 2 (quick) / 3 (thorough) times, 10-24 "
    "times when the keys interact through the width heuristics, and all repetitions must agree",
    "symlinked directories, a *directory* named rustfmt.toml, unreadable config files and a --config-path "
    "directory without a config file are outside the enumerated alphabet",
    "`--edition X` together with `--config edition=Y` (same for style edition) is not enumerated: the "
    "property does not order the two",
]

# ============================================================================
# generic helpers
# ============================================================================

_counter = itertools.count()
SCRATCH = None
_inv_lock = threading.Lock()
_inv_total = [0]


def rf(argv, cwd, home):
    """One subject invocation (= one transition)."""
    with _inv_lock:
        _inv_total[0] += 1
    rc, out, err = common.run([RUSTFMT] + argv, cwd=cwd, env=base_env(home=home))
    return rc, out.decode("utf-8", "replace"), err.decode("utf-8", "replace")


def new_dir():
    with _inv_lock:
        n = next(_counter)
    return SCRATCH.fresh(f"c{os.getpid()}-{n}")


_WORK_T = None


def _work(item):
    return run_spec(item[0], item[1], _WORK_T)


def pmap(work, T):
    """Deterministic-order parallel map over worker *processes* (forked: they inherit T and SCRATCH).
    Threads spend most of their time waiting for the interpreter lock while another thread spawns a
    child; with processes the subject invocations really run in parallel."""
    global _WORK_T
    import multiprocessing
    from concurrent.futures import ProcessPoolExecutor

    _WORK_T = T
    jobs = int(os.environ.get("VERIF_JOBS", "0") or 0) or 2 * (os.cpu_count() or 8)
    with ProcessPoolExecutor(max_workers=jobs, mp_context=multiprocessing.get_context("fork")) as ex:
        return list(ex.map(_work, work, chunksize=4))


def wtree(root, files):
    common.write_tree(root, files)


def rd(p):
    try:
        with open(p, "rb") as f:
            return f.read().decode("utf-8", "replace")
    except OSError as e:
        return f"<unreadable: {e}>"


def parse_cfg(text):
    """`key = value` lines of a --print-config dump -> {key: value text}."""
    out = {}
    for line in text.splitlines():
        m = re.match(r"^([a-z_0-9]+) = (.*)$", line)
        if m and m.group(1) not in out:
            out[m.group(1)] = m.group(2)
    return out


def toml_of(d):
    return "".join(f"{k} = {v}\n" for k, v in d.items())


def cli_val(v):
    """TOML value text -> text after `key=` of --config."""
    if len(v) >= 2 and v[0] == '"' and v[-1] == '"':
        return v[1:-1]
    return v


WIDTH_OPTS = [
    "fn_call_width",
    "attr_fn_like_width",
    "struct_lit_width",
    "struct_variant_width",
    "array_width",
    "chain_width",
    "single_line_if_else_max_width",
    "single_line_let_else_max_width",
]

# ============================================================================
# the probe file of parts A and B and its reference renderer
# ============================================================================

# Operands are 18 columns and tab_spaces is kept <= 7: rustfmt's "avoid an orphan" rule for binary chains
# (which puts two operands on one line when the previous line is not wider than the continuation
# indent, counting a hard tab as one column) then never applies, and a wrapped line fits max_width = 60.
OPS_A = ["aaaaaaaaaaaaaaaaa%d" % i for i in range(1, 4)]  # line `let a = ...;` is 69 columns + indent: fits 100/130, not 60
OPS_B = ["bbbbbbbbbbbbbbbbb%d" % i for i in range(1, 6)]  # line `let b = ...;` is 111 columns + indent: fits 130 only
PROBE_BLANKS = 30
PROBE_SRC = (
    "use x::{a9, a10, a2};\n" + "\n" * PROBE_BLANKS + "fn main()   {\nlet a = "
    + "+".join(OPS_A)
    + ";\n            let b = "
    + " +  ".join(OPS_B)
    + ";\n  }\n"
)


def render_probe(eff):
    """Expected formatted text of PROBE_SRC under the effective options `eff` (TOML value texts).

    tab_spaces / hard_tabs: one indentation step is tab_spaces spaces, or one tab that counts
    tab_spaces columns; max_width: a binary-operator chain stays on one line iff the line fits,
    otherwise every operand goes on its own line, one step deeper, operator first;
    brace_style=AlwaysNextLine puts the `{` of the fn on its own line; style edition >= 2024
    sorts `a2, a9, a10` (version sort), earlier ones `a10, a2, a9` (Configurations.md / Style Guide).
    """
    ts = int(eff["tab_spaces"])
    hard = eff["hard_tabs"] == "true"
    mw = int(eff["max_width"])
    ind = "\t" if hard else " " * ts
    se = int(cli_val(eff["style_edition"]))
    names = ["a2", "a9", "a10"] if se >= 2024 else ["a10", "a2", "a9"]
    out = ["use x::{" + ", ".join(names) + "};"]
    # blank_lines_upper_bound: at most that many of the blank lines between two items are kept
    out += [""] * min(int(eff["blank_lines_upper_bound"]), PROBE_BLANKS)
    if cli_val(eff["brace_style"]) == "AlwaysNextLine":
        out += ["fn main()", "{"]
    else:
        out += ["fn main() {"]
    for var, ops in (("a", OPS_A), ("b", OPS_B)):
        one = f"let {var} = " + " + ".join(ops) + ";"
        if ts + len(one) <= mw:
            out.append(ind + one)
        else:
            out.append(ind + f"let {var} = " + ops[0])
            for i, o in enumerate(ops[1:]):
                out.append(ind + ind + "+ " + o + (";" if i == len(ops) - 2 else ""))
    out.append("}")
    return "\n".join(out) + "\n"


# ============================================================================
# the precedence model of parts A and B
# ============================================================================

# Every possible config file ("slot") has a unique blank_lines_upper_bound (its identity, visible in
# print-config and as the number of blank lines kept between two items of the probe) and a different
# subset of the other probe options, so that (a) the file that won is identified, (b) merging of two
# files is visible.  tab_spaces stays <= 7 wherever hard_tabs can be on (see OPS_A).
_SLOT_EXTRAS = [
    ("d0P", {"tab_spaces": "2", "max_width": "60"}),
    ("d0D", {"tab_spaces": "3", "hard_tabs": "true"}),
    ("d1P", {"tab_spaces": "5", "brace_style": '"AlwaysNextLine"', "edition": '"2021"'}),
    ("d1D", {"tab_spaces": "6", "style_edition": '"2024"'}),
    ("d2P", {"tab_spaces": "1", "version": '"Two"', "max_width": "130"}),
    ("d2D", {"edition": '"2024"'}),
    ("d3P", {"tab_spaces": "2", "hard_tabs": "true", "style_edition": '"2021"'}),
    ("d3D", {"tab_spaces": "3", "max_width": "60", "version": '"Two"', "edition": '"2018"'}),
    ("homeP", {"tab_spaces": "5", "brace_style": '"AlwaysNextLine"'}),
    ("homeD", {"tab_spaces": "6", "edition": '"2024"', "version": '"One"'}),
    ("xdgP", {"tab_spaces": "1", "style_edition": '"2024"', "max_width": "130"}),
    ("xdgD", {"tab_spaces": "2", "hard_tabs": "true"}),
    ("cpfile", {"tab_spaces": "3", "edition": '"2021"', "max_width": "60"}),
    ("cpdirP", {"tab_spaces": "5", "version": '"Two"'}),
    ("cpdirD", {"tab_spaces": "6", "style_edition": '"2018"', "brace_style": '"AlwaysNextLine"'}),
    ("decoy", {"tab_spaces": "1", "max_width": "60", "hard_tabs": "true", "style_edition": '"2024"'}),
    # part B
    ("pP", {"tab_spaces": "2", "max_width": "60"}),
    ("pD", {"tab_spaces": "3", "hard_tabs": "true", "edition": '"2024"'}),
    ("qP", {"tab_spaces": "5", "brace_style": '"AlwaysNextLine"'}),
    ("qD", {"tab_spaces": "6", "style_edition": '"2024"'}),
    ("rP", {"tab_spaces": "1", "version": '"Two"', "max_width": "130"}),
    ("rD", {"max_width": "60", "style_edition": '"2015"'}),
]
SLOTS = {}
for _i, (_n, _e) in enumerate(_SLOT_EXTRAS):
    SLOTS[_n] = dict({"blank_lines_upper_bound": str(_i + 2)}, **_e)
PROBE_KEYS = ["blank_lines_upper_bound", "tab_spaces", "hard_tabs", "max_width", "brace_style", "edition", "style_edition", "version"]

NAMES = {"P": ["rustfmt.toml"], "D": [".rustfmt.toml"], "B": ["rustfmt.toml", ".rustfmt.toml"], "-": []}
# A configuration file that sets nothing is still the nearest configuration file:
#   e = zero-byte rustfmt.toml;  E = zero-byte .rustfmt.toml next to a populated rustfmt.toml;
#   c = rustfmt.toml holding only a comment.
NAMES.update({"e": ["rustfmt.toml"], "E": ["rustfmt.toml", ".rustfmt.toml"], "c": ["rustfmt.toml"]})


class _Slots(dict):
    """Slot names ending in `e` (zero bytes) / `c` (comment only) configure nothing."""

    def __missing__(self, k):
        if k and k[-1] in "ec":
            return {}
        raise KeyError(k)


SLOTS = _Slots(SLOTS)


def slot_of(state, prefix, nm):
    dotted = nm.startswith(".")
    if state == "e":
        return prefix + "Pe"
    if state == "c":
        return prefix + "Pc"
    if state == "E" and dotted:
        return prefix + "De"
    return prefix + ("D" if dotted else "P")


def raw_of(slot):
    """File content of a slot."""
    if slot.endswith("e"):
        return ""
    if slot.endswith("c"):
        return "# nothing is configured here\n"
    return toml_of(SLOTS[slot])


def present(state, prefix):
    """Slots present in a directory whose state is one of - P D B e E c, nearest-first order:
    the dotted name wins inside one directory."""
    if state in "eEc":
        return [slot_of(state, prefix, nm) for nm in sorted(NAMES[state], key=lambda n: not n.startswith("."))]
    return [prefix + n for n in ("D", "P") if (n == "D" and state in "DB") or (n == "P" and state in "PB")]


def discovery_chain(levels, home, xdg):
    """Slots in the documented lookup order: the file's directory, its ancestors, HOME, user config dir."""
    chain = []
    for k, st in enumerate(levels):
        chain += present(st, f"d{k}")
    chain += present(home, "home")
    chain += present(xdg, "xdg")
    return chain


def cli_keys(ov):
    """{key: TOML value text} set on the command line by an override set."""
    d = {}
    if ov.get("edition"):
        d["edition"] = '"%s"' % ov["edition"]
    if ov.get("style_edition"):
        d["style_edition"] = '"%s"' % ov["style_edition"]
    for k, v in ov.get("config", []):
        d[k] = v
    return d


def cli_argv(ov):
    a = []
    if ov.get("edition"):
        a += ["--edition", ov["edition"]]
    if ov.get("style_edition"):
        a += ["--style-edition", ov["style_edition"]]
    kv = [f"{k}={cli_val(v)}" for k, v in ov.get("config", [])]
    if kv:
        if ov.get("form", "comma") == "comma":
            a += ["--config", ",".join(kv)]
        else:
            for x in kv:
                a += ["--config", x]
    return a


def ov_name(ov):
    parts = []
    if ov.get("edition"):
        parts.append("--edition " + ov["edition"])
    if ov.get("style_edition"):
        parts.append("--style-edition " + ov["style_edition"])
    kv = [f"{k}={cli_val(v)}" for k, v in ov.get("config", [])]
    if kv:
        parts.append(("--config " + ",".join(kv)) if ov.get("form", "comma") == "comma" else " ".join("--config " + x for x in kv))
    return "; ".join(parts) or "-"


def effective(file_keys, cli, se_defaults):
    """The reference: effective option texts for the probe keys and every style-edition-dependent default.

    --config / dedicated flags override the file; unset options take the defaults of the effective
    style edition: style_edition, else legacy version (One -> 2015, Two -> 2024), else edition.
    """
    merged = dict(file_keys)
    merged.update(cli)
    if "style_edition" in merged:
        se = cli_val(merged["style_edition"])
    elif "version" in merged:
        se = "2015" if cli_val(merged["version"]) == "One" else "2024"
    elif "edition" in merged:
        se = cli_val(merged["edition"])
    else:
        se = "2015"
    eff = dict(se_defaults[se])  # all options at their defaults for this style edition
    eff["edition"] = '"2015"'  # the parser edition's default does not depend on the style edition
    eff["style_edition"] = '"%s"' % se
    eff.update(merged)
    # When style_edition is only inferred, the property fixes the *defaults of the unset options*, not the
    # text printed for `style_edition` itself: any style edition with the same table of defaults is accepted
    # there (the subject prints "2015" for an inferred 2018/2021, whose defaults are identical).
    if "style_edition" not in merged:
        strip = lambda d: {k: v for k, v in d.items() if k != "style_edition"}
        eff["_se_accept"] = sorted('"%s"' % s for s in se_defaults if strip(se_defaults[s]) == strip(se_defaults[se]))
    return eff


# ============================================================================
# part A: one input file
# ============================================================================


def a_case_id(s):
    return "A L[%s] H[%s] X[%s] CP[%s] CWD[%s] O[%s]" % (
        "".join(s["levels"]),
        s["home"],
        s["xdg"],
        s["cp"] or "-",
        s["cwd"],
        ov_name(s["ov"]),
    )


def a_build(s, root):
    """Create the tree of a part-A state; returns (files dict, file path, home, cwd, path argument, cp argv)."""
    n = len(s["levels"])
    # dirs[k] = directory of level k; level 0 is the directory of the input file
    dirs = [os.path.join("w", *[f"L{j}" for j in range(n - 1, k - 1, -1)]) for k in range(n)]
    filedir = dirs[0]
    files = {os.path.join(filedir, "probe.rs"): PROBE_SRC}
    for k, st in enumerate(s["levels"]):
        for nm in NAMES[st]:
            files[os.path.join(dirs[k], nm)] = raw_of(slot_of(st, f"d{k}", nm))
    for nm in NAMES[s["home"]]:
        files[os.path.join("home", nm)] = raw_of(slot_of(s["home"], "home", nm))
    for nm in NAMES[s["xdg"]]:
        files[os.path.join("home", ".config", "rustfmt", nm)] = raw_of(slot_of(s["xdg"], "xdg", nm))
    files[os.path.join("home", "keep")] = ""
    cp = s["cp"]
    cp_argv = []
    if cp == "file":
        files["cp/custom.toml"] = toml_of(SLOTS["cpfile"])
        cp_argv = ["--config-path", os.path.join(root, "cp/custom.toml")]
    elif cp in ("dirP", "dirD", "dirB", "dire", "dirE", "dirc"):
        for nm in NAMES[cp[-1]]:
            files[os.path.join("cpdir", nm)] = raw_of(slot_of(cp[-1], "cpdir", nm))
        cp_argv = ["--config-path", os.path.join(root, "cpdir")]
    elif cp == "missing":
        cp_argv = ["--config-path", os.path.join(root, "nowhere", "rustfmt.toml")]
    if s["cwd"].startswith("decoy"):
        files["decoy/rustfmt.toml"] = toml_of(SLOTS["decoy"])
    else:
        files["decoy/keep"] = ""
    wtree(root, files)
    fpath = os.path.join(root, filedir, "probe.rs")
    cwdmode = s["cwd"]
    if cwdmode == "root-abs":
        cwd, arg = root, fpath
    elif cwdmode == "decoy-abs":
        cwd, arg = os.path.join(root, "decoy"), fpath
    elif cwdmode == "filedir-rel":
        cwd, arg = os.path.join(root, filedir), "probe.rs"
    elif cwdmode == "decoy-rel":
        cwd, arg = os.path.join(root, "decoy"), os.path.join("..", filedir, "probe.rs")
    else:
        raise ValueError(cwdmode)
    return files, fpath, os.path.join(root, "home"), cwd, arg, cp_argv


def a_model(s, T):
    """Returns (list of acceptable effective dicts or the marker 'error', chosen slot name)."""
    chain = discovery_chain(s["levels"], s["home"], s["xdg"])
    disc = chain[0] if chain else None
    cli = cli_keys(s["ov"])
    cp = s["cp"]
    if cp is None:
        chosen = disc
    elif cp == "file":
        chosen = "cpfile"
    elif cp == "missing":
        # --help: "If not found reverts to the input file path"; an error is accepted as well
        return ["error", effective(SLOTS[disc] if disc else {}, cli, T["se_defaults"])], "missing"
    else:
        chosen = present(cp[-1], "cpdir")[0]
    return [effective(SLOTS[chosen] if chosen else {}, cli, T["se_defaults"])], chosen


def cmp_cfg(printed, eff, T):
    """Differences between a parsed --print-config dump and the model.  The eight derived widths
    are only compared when max_width has its default (they are a function of max_width)."""
    diffs = []
    for k in T["option_order"]:
        if k in WIDTH_OPTS and eff["max_width"] != "100":
            continue
        if k == "style_edition" and "_se_accept" in eff and printed.get(k) in eff["_se_accept"]:
            continue
        if printed.get(k) != eff.get(k):
            diffs.append((k, eff.get(k), printed.get(k)))
    return diffs


def a_nontrivial(s):
    srcs = []
    for k, st in enumerate(s["levels"]):
        srcs += [SLOTS[x] for x in present(st, f"d{k}")]
    srcs += [SLOTS[x] for x in present(s["home"], "home")] + [SLOTS[x] for x in present(s["xdg"], "xdg")]
    if s["cp"] == "file":
        srcs.append(SLOTS["cpfile"])
    elif s["cp"] in ("dirP", "dirD", "dirB"):
        srcs += [SLOTS[x] for x in present(s["cp"][-1], "cpdir")]
    if s["cwd"].startswith("decoy"):
        srcs.append(SLOTS["decoy"])
    c = cli_keys(s["ov"])
    if c:
        srcs.append(c)
    for i in range(len(srcs)):
        for j in range(i + 1, len(srcs)):
            for k in srcs[i]:
                if k in srcs[j] and srcs[j][k] != srcs[i][k]:
                    return True
    return False


def a_run(s, T, verbose=False):
    """Execute one part-A state; returns a result dict with a list of violations."""
    root = new_dir()
    res = {"id": a_case_id(s), "viol": [], "inv": 0, "traces": 0}
    try:
        files, fpath, home, cwd, arg, cp_argv = a_build(s, root)
        accept, chosen = a_model(s, T)
        res["chosen"] = chosen
        opts = cli_argv(s["ov"]) + cp_argv
        nkeys = len(s["ov"].get("config", []))
        reps = (3 if T.get("thorough") else 2) if nkeys >= 2 else 1
        base_detail = {
            "spec": s,
            "tree": {k: v for k, v in files.items() if k.endswith(".toml")},
            "cwd": os.path.relpath(cwd, root),
            "chosen_by_model": chosen,
        }
        # ---- (pc)
        argv = opts + ["--print-config", "current", arg]
        outs = []
        for _ in range(reps):
            rc, out, err = rf(argv, cwd, home)
            res["inv"] += 1
            outs.append((rc, out, err))
        res["traces"] += reps
        if len({(o[0], o[1]) for o in outs}) > 1:
            res["viol"].append(
                ("nondeterministic-config-order", dict(base_detail, argv=argv, observed=[{"rc": o[0], "stdout": o[1]} for o in outs]))
            )
        rc, out, err = outs[0]
        ok = False
        notes = []
        for eff in accept:
            if eff == "error":
                if rc != 0 and out.strip() == "":
                    ok = True
                    break
                notes.append({"expected": "an error (non-zero exit, nothing printed)", "rc": rc})
                continue
            if rc != 0:
                notes.append({"expected": "exit 0", "rc": rc, "stderr": err[-400:]})
                continue
            d = cmp_cfg(parse_cfg(out), eff, T)
            if not d:
                ok = True
                break
            notes.append({"differences (option, expected, printed)": d})
        if not ok:
            res["viol"].append(("print-config-mismatch", dict(base_detail, argv=argv, rc=rc, stderr=err[-600:], why=notes)))
        if verbose:
            print("argv:", argv, "\nrc:", rc, "\nprinted (probe keys):", {k: parse_cfg(out).get(k) for k in PROBE_KEYS})
            print("stderr:", err.strip())
        # ---- (fmt)
        argv = opts + [arg]
        rc, out, err = rf(argv, cwd, home)
        res["inv"] += 1
        res["traces"] += 1
        got = rd(fpath)
        ok = False
        notes = []
        for eff in accept:
            if eff == "error":
                if rc != 0 and got == PROBE_SRC:
                    ok = True
                    break
                notes.append({"expected": "an error and an untouched file", "rc": rc})
                continue
            want = render_probe(eff)
            if rc == 0 and got == want:
                ok = True
                break
            notes.append({"expected_text": want, "expected_options": {k: eff[k] for k in PROBE_KEYS}})
        if not ok:
            res["viol"].append(
                ("format-mismatch", dict(base_detail, argv=argv, rc=rc, stderr=err[-600:], stdout=out[-300:], observed_text=got, why=notes))
            )
        if verbose:
            print("argv:", argv, "\nrc:", rc, "\nformatted file:\n" + got)
            for eff in accept:
                if eff != "error":
                    print("expected:\n" + render_probe(eff))
        # config files must never be written
        for k, v in files.items():
            if k.endswith(".toml") and rd(os.path.join(root, k)) != v:
                res["viol"].append(("config-file-modified", dict(base_detail, file=k)))
    finally:
        shutil.rmtree(root, ignore_errors=True)
    return res


def level_states(n, mode):
    allst = [list(x) for x in itertools.product("-PDB", repeat=n)]
    if mode == "all":
        return allst
    # "sparse": at most one populated level, plus everything populated with both names
    out = [x for x in allst if sum(c != "-" for c in x) <= 1]
    out.append(["B"] * n)
    return out


CLI_ATOMS = [
    ("tab_spaces", "7"),
    ("hard_tabs", "false"),
    ("max_width", "130"),
    ("brace_style", '"AlwaysNextLine"'),
    ("version", '"Two"'),
    ("style_edition", '"2015"'),
    ("edition", '"2018"'),
]


def override_sets(thorough):
    eds = [None, "2018", "2024"] if thorough else [None, "2024"]
    ses = [None, "2015", "2024"] if thorough else [None, "2024"]
    out = []
    for r in range(0, 4):
        for sub in itertools.combinations(CLI_ATOMS, r):
            keys = {k for k, _ in sub}
            for ed in eds:
                if ed and "edition" in keys:
                    continue
                for se in ses:
                    if se and "style_edition" in keys:
                        continue
                    forms = ["comma"]
                    if r >= 2 and (thorough or (ed is None and se is None)):
                        forms.append("multi")
                    for form in forms:
                        ov = {"edition": ed, "style_edition": se, "config": [list(x) for x in sub]}
                        if r >= 2:
                            ov["form"] = form
                        out.append(ov)
    return out


OV_NONE = {"edition": None, "style_edition": None, "config": []}
OV_SMALL = [
    OV_NONE,
    {"edition": None, "style_edition": None, "config": [["tab_spaces", "7"]]},
    {"edition": None, "style_edition": "2024", "config": []},
    {"edition": "2024", "style_edition": None, "config": [["version", '"One"'], ["hard_tabs", "false"]], "form": "comma"},
]


def a_states(thorough):
    n = 4 if thorough else 3
    st = []

    def add(levels, home="-", xdg="-", cp=None, cwd="root-abs", ov=OV_NONE):
        st.append({"levels": list(levels), "home": home, "xdg": xdg, "cp": cp, "cwd": cwd, "ov": ov})

    # A1: every discovery layout, no CLI options
    for lv in level_states(n, "all"):
        for home in "-PDB":
            for xdg in "-PDB":
                add(lv, home, xdg)
    if thorough:  # ... and with the small override sets on top of every layout
        for ov in OV_SMALL[1:]:
            for lv in level_states(n, "all"):
                for home in "-PDB":
                    for xdg in "-PDB":
                        add(lv, home, xdg, None, "root-abs", ov)
    # A1e: configuration files that configure nothing (zero bytes / a comment only) still end the search
    for lv in itertools.product("-PeEc", repeat=3):
        if not any(c in "eEc" for c in lv):
            continue
        for home in "-Pe":
            add(list(lv) + ["-"] * (n - 3), home, "-")
    for cp in ("dire", "dirE", "dirc"):
        for lv in (["-"] * n, ["P"] + ["-"] * (n - 1)):
            add(lv, "P", "-", cp, "root-abs")
    # A1c: the working directory is not a configuration source
    for cwd in ("decoy-abs", "filedir-rel", "decoy-rel"):
        for lv in level_states(n, "all" if thorough else "sparse"):
            for home in ("-", "B"):
                add(lv, home, "-", None, cwd)
    # A2: --config-path replaces discovery wholesale
    for cp in ("file", "dirP", "dirD", "dirB", "missing"):
        for lv in level_states(3, "all" if thorough else "sparse"):
            for home in "-PDB" if thorough else "-B":
                for xdg in "-PDB" if thorough else "-P":
                    for ov in OV_SMALL if thorough else OV_SMALL[:3]:
                        add(lv, home, xdg, cp, "root-abs", ov)
    # A3: every override set over a few layouts
    lay = [
        (["-"] * n, "-", "-", None),
        (["B", "D"] + ["-"] * (n - 2), "-", "-", None),
        (["-", "P"] + ["-"] * (n - 2), "B", "-", None),
        (["-"] * n, "D", "P", None),
        (["P"] + ["-"] * (n - 1), "-", "-", "file"),
    ]
    if thorough:
        lay += [
            (["P"] + ["-"] * (n - 1), "-", "-", None),
            (["-"] * n, "-", "P", None),
            (["-", "-", "P"] + ["-"] * (n - 3), "-", "-", None),
            (["-", "-", "D"] + ["-"] * (n - 3), "P", "B", None),
            (["-"] * (n - 1) + ["B"], "-", "-", None),
            (["D"] + ["-"] * (n - 1), "-", "-", "dirB"),
            (["-"] * n, "-", "D", None),
        ]
    for ov in override_sets(thorough):
        if ov == OV_NONE:
            continue
        for lv, home, xdg, cp in lay:
            add(lv, home, xdg, cp, "root-abs", ov)
    # dedupe, keep first (simplest-first order)
    seen, out = set(), []
    for s in st:
        k = json.dumps(s, sort_keys=True)
        if k not in seen:
            seen.add(k)
            out.append(s)
    return out


# ============================================================================
# part B: several input files on one command line
# ============================================================================

B_FILES = {"f1": "p/f1.rs", "f2": "p/q/f2.rs", "f3": "r/f3.rs"}
B_DIRS = {"f1": ["p"], "f2": ["q", "p"], "f3": ["r"]}  # nearest first (slot prefixes)
B_DIRPATH = {"p": "p", "q": "p/q", "r": "r"}


def b_case_id(s):
    return "B cfg[p=%s,q=%s,r=%s,home=%s] CP[%s] O[%s] files[%s]" % (
        s["p"], s["q"], s["r"], s["home"], s["cp"] or "-", ov_name(s["ov"]), " ".join(s["order"]),
    )


def b_chain(s, f):
    chain = []
    for d in B_DIRS[f]:
        chain += present(s[d], d)
    chain += present(s["home"], "home")
    return chain


def b_run(s, T, verbose=False):
    root = new_dir()
    res = {"id": b_case_id(s), "viol": [], "inv": 0, "traces": 0}
    try:
        files = {}
        for f, rel in B_FILES.items():
            files["w/" + rel] = PROBE_SRC
        for d, rel in B_DIRPATH.items():
            for nm in NAMES[s[d]]:
                files[f"w/{rel}/{nm}"] = toml_of(SLOTS[d + ("D" if nm.startswith(".") else "P")])
        for nm in NAMES[s["home"]]:
            files["home/" + nm] = toml_of(SLOTS["home" + ("D" if nm.startswith(".") else "P")])
        files["home/keep"] = ""
        cp_argv = []
        if s["cp"] == "file":
            files["cp/custom.toml"] = toml_of(SLOTS["cpfile"])
            cp_argv = ["--config-path", os.path.join(root, "cp/custom.toml")]
        wtree(root, files)
        cli = cli_keys(s["ov"])
        argv = cli_argv(s["ov"]) + cp_argv + [os.path.join(root, "w", B_FILES[f]) for f in s["order"]]
        rc, out, err = rf(argv, root, os.path.join(root, "home"))
        res["inv"] += 1
        res["traces"] += 1
        detail = {"spec": s, "tree": {k: v for k, v in files.items() if k.endswith(".toml")}, "argv": argv, "rc": rc, "stderr": err[-600:], "per_file": {}}
        bad = rc != 0
        for f, rel in B_FILES.items():
            got = rd(os.path.join(root, "w", rel))
            if f in s["order"]:
                chain = b_chain(s, f)
                chosen = "cpfile" if s["cp"] == "file" else (chain[0] if chain else None)
                eff = effective(SLOTS[chosen] if chosen else {}, cli, T["se_defaults"])
                want = render_probe(eff)
            else:
                chosen, want = "(not on the command line)", PROBE_SRC
            okf = got == want
            detail["per_file"][rel] = {"config_by_model": chosen, "ok": okf}
            if not okf:
                bad = True
                detail["per_file"][rel].update({"expected_text": want, "observed_text": got})
            if verbose:
                print(f"--- {rel}: model config {chosen}; {'ok' if okf else 'MISMATCH'}\n{got}")
        if bad:
            res["viol"].append(("multi-file-format-mismatch", detail))
        for k, v in files.items():
            if k.endswith(".toml") and rd(os.path.join(root, k)) != v:
                res["viol"].append(("config-file-modified", dict(detail, file=k)))
        if verbose:
            print("argv:", argv, "rc:", rc, "stderr:", err.strip())
    finally:
        shutil.rmtree(root, ignore_errors=True)
    return res


def b_nontrivial(s):
    n = sum(1 for d in ("p", "q", "r", "home") for _ in present(s[d], d if d != "home" else "home"))
    n += 1 if s["cp"] else 0
    n += 1 if cli_keys(s["ov"]) else 0
    return n >= 2


def b_states(thorough):
    orders = []
    for r in (1, 2, 3):
        for sub in itertools.combinations(["f1", "f2", "f3"], r):
            orders += [list(x) for x in itertools.permutations(sub)]
    dirstates = "-PDB" if thorough else "-PD"
    ovs = [
        (None, OV_NONE),
        (None, {"edition": None, "style_edition": None, "config": [["tab_spaces", "7"]]}),
        ("file", OV_NONE),
    ]
    if thorough:
        ovs.append((None, {"edition": None, "style_edition": "2024", "config": []}))
        ovs.append((None, {"edition": "2024", "style_edition": None, "config": [["max_width", "130"], ["hard_tabs", "false"]], "form": "comma"}))
        ovs.append(("file", {"edition": None, "style_edition": None, "config": [["tab_spaces", "7"]]}))
    st = []
    for p in dirstates:
        for q in dirstates:
            for r in dirstates:
                for home in ("-", "P") if not thorough else ("-", "P", "B"):
                    for cp, ov in ovs:
                        for order in orders:
                            if not thorough and (cp is not None or ov != OV_NONE) and len(order) < 3:
                                continue
                            st.append({"p": p, "q": q, "r": r, "home": home, "cp": cp, "ov": ov, "order": order})
    return st


# ============================================================================
# part C: every option x every accepted value, file == --config; fixpoint
# ============================================================================

GENERIC_SRC = r'''#![allow(dead_code)]
//! inner doc comment with a rather long line that is wrapped when wrap_comments is enabled and comment_width is smaller than it
#[derive(Debug)]
#[derive(Clone)]
pub struct S { pub a: u32, b: String }
mod zeta;
mod alpha;
use std::io::{self, Write};
use std::collections::HashMap;
use std::collections::HashSet;
use crate::b10; use crate::b9;
extern { fn ext(x: i32); }
enum E { A, B(u32), C { x: u32, y: u32 }, D = 1, Eeeeeeee = 2 }
impl S {
    fn zz(&self) {}
    const Z: u32 = 0x1aF;
    fn new(a: u32, b: String) -> S { S { a: a, b: b } }
}
fn long_params(first_parameter: u32, second_parameter: u32, third_parameter: u32, fourth: u32) -> u32 where u32: Copy { 1 }
fn empty() {}
fn single() -> u32 { 1 }
/// ```
/// let x   =   1;
/// ```
#[doc = "attr doc"]
fn main() {
    let x = try!(foo());
    let v = [1, 2, 3, 4, 5, 6, 7, 8, 9, 10, 11, 12, 13, 14, 15, 16, 17, 18, 19, 20, 21, 22, 23, 24, 25, 26, 27, 28, 29, 30];
    let s = S { a: 1, b: String::new() };
    let r = 1..2; let f = 1.0; let g = 1.;
    let t = ((1 + 2));
    match x { A => 1, B(_, _, _) => { 2 } C => 3, | Dd => foo(aaaaaaaaaaaaaaaaaaaaaaaaaa, bbbbbbbbbbbbbbbbbbbbbbbbbbbbbbb, cccccccccccccccccccccccc, ddd), _ => { foo(); } }
    if a { b } else { c }
    let y = if a { 1 } else { 2 };
    let Some(z) = opt else { return };
    let c = foo.bar().baz(|x| x + 1).qux(1, 2, 3).quux();
    let long_string = "aaaaaaa aaaaaaa aaaaaaaaa aaaaaaaaaa aaaaaaaaaaaaa aaaaaaaaaa aaaaaaaaaa aaaaaaa aaaaaaaaa aaaaaaaaaaaa aaaaaaaa";
    foo!(a,b);
    lorem!( const _: u8 = 0; );
    let sum = aaaaaaaaaaaaaaaaaaaaaaaaaaaaaa + bbbbbbbbbbbbbbbbbbbbbbbbbbbbbbbbbbb + cccccccccccccccccccccccccccccccc + dddddddddddd;
    let (a, _, _, _) = tup;
    for i in 0..10 { continue }


    return 1
}
macro_rules! m { ($a:expr) => { let q   =   $a+1; }; }
/* block comment */
#[cfg(test)] fn t<T:Copy>(x:T) where T:Clone {}
'''
GENERIC_TREE = {
    "g/main.rs": GENERIC_SRC,
    "g/zeta.rs": "fn   z ( ) { }\n",
    "g/alpha.rs": "fn   a ( ) { }\n",
}


def option_table():
    """[(name, kind, variants)] from `rustfmt --unstable-features --help=config`."""
    rc, out, err = rf(["--unstable-features", "--help=config"], "/", None)
    if rc != 0:
        print("machinery error: --help=config failed: " + err, file=sys.stderr)
        sys.exit(2)
    opts = []
    for line in out.splitlines():
        m = re.match(r"^\s*([a-z_0-9]+) (<[^>]+>|\[[^\]]*\]) Default: (.*?)( \(unstable\))?$", line)
        if not m:
            continue
        name, hint, default = m.group(1), m.group(2), m.group(3)
        if hint == "<boolean>":
            opts.append((name, "bool", ["true", "false"]))
        elif hint == "<unsigned integer>":
            opts.append((name, "int", []))
        elif hint == "<string>":
            opts.append((name, "string", []))
        elif hint.startswith("[<string>"):
            opts.append((name, "list", []))
        else:
            vs = [v.replace(" (unstable)", "").strip() for v in hint[1:-1].split("|")]
            opts.append((name, "enum", vs))
    return opts


def values_for(name, kind, variants, defaults, thorough):
    """TOML value texts to try for an option."""
    if kind == "bool":
        return ["true", "false"]
    if kind == "enum":
        return ['"%s"' % v for v in variants]
    if kind == "int":
        d = defaults.get(name, "0")
        if name == "max_width":
            vs = ["60", "100", "160"] + (["40", "200"] if thorough else [])
        elif name == "tab_spaces":
            vs = ["2", "4", "8"] + (["1", "3"] if thorough else [])
        elif name in WIDTH_OPTS:
            vs = ["1", "37", d] + (["100", "99"] if thorough else [])
        else:
            vs = ["0", "1", "37", d] + (["2", "100"] if thorough else [])
        out = []
        for v in vs:
            if v not in out:
                out.append(v)
        return out
    if kind == "string":  # required_version
        return ['"1.8.0"', '"^1"', '"*"'] + (['">=1.0.0"', '"1.8"'] if thorough else [])
    if kind == "list":
        if name == "skip_macro_invocations":
            return ["[]", '["lorem"]', '["*"]']
        return ["[]", '["alpha.rs"]'] + (['["/"]'] if thorough else [])
    return []


def norm_err(err):
    """stderr as an effect: the distinct lines in order of first appearance (how often a warning is
    repeated is not an effect of the option)."""
    seen, out = set(), []
    for l in err.splitlines():
        if l not in seen:
            seen.add(l)
            out.append(l)
    return "\n".join(out)


def observe_format(root, home, argv_opts):
    """Format g/main.rs in place; returns everything observable."""
    rc, out, err = rf(argv_opts + [os.path.join(root, "g/main.rs")], root, home)
    snap = {}
    for d, _ds, fs in os.walk(os.path.join(root, "g")):
        for f in fs:
            if f.endswith(".toml"):
                continue
            snap[os.path.relpath(os.path.join(d, f), root)] = rd(os.path.join(d, f))
    return {"rc": rc, "stdout": out, "stderr": norm_err(err), "files": snap}


def c_case_id(s):
    return "C option %s=%s" % (s["opt"], cli_val(s["val"]) if not s["val"].startswith("[") else s["val"])


def c_run(s, T, verbose=False):
    """file variant vs --config variant of one (option, value), in the same directory one after the other."""
    root = new_dir()
    res = {"id": c_case_id(s), "viol": [], "inv": 0, "traces": 0, "accepted": False}
    opt, val = s["opt"], s["val"]
    flags = [] if opt == "unstable_features" else ["--unstable-features"]
    home = os.path.join(root, "home")
    try:
        # --- file variant
        wtree(root, dict(GENERIC_TREE, **{"g/rustfmt.toml": toml_of({opt: val}), "home/keep": ""}))
        f_pc = rf(flags + ["--print-config", "current", os.path.join(root, "g/main.rs")], root, home)
        f_fmt = observe_format(root, home, flags)
        shutil.rmtree(os.path.join(root, "g"))
        # --- --config variant
        wtree(root, GENERIC_TREE)
        cfg = ["--config", f"{opt}={cli_val(val)}"]
        c_pc = rf(flags + cfg + ["--print-config", "current", os.path.join(root, "g/main.rs")], root, home)
        c_fmt = observe_format(root, home, flags + cfg)
        res["inv"] += 4
        res["traces"] += 4
        detail = {"spec": s, "file": toml_of({opt: val}), "cli": flags + cfg}
        rejected = c_pc[0] != 0 and "invalid key=val pair" in c_pc[2]
        res["cli_rejected"] = rejected
        res["file_accepted"] = f_pc[0] == 0
        if verbose:
            print("file variant: rustfmt.toml =", repr(toml_of({opt: val})), " flags:", flags)
            print("  print-config rc", f_pc[0], "line:", parse_cfg(f_pc[1]).get(opt), "stderr:", f_pc[2].strip()[-300:])
            print("  format rc", f_fmt["rc"], "stderr:", f_fmt["stderr"].strip()[-300:])
            print("cli variant:", flags + cfg)
            print("  print-config rc", c_pc[0], "line:", parse_cfg(c_pc[1]).get(opt), "stderr:", c_pc[2].strip()[-300:])
            print("  format rc", c_fmt["rc"], "stderr:", c_fmt["stderr"].strip()[-300:])
        if rejected:
            # outside the quantifier ("every option/value pair accepted by the parser"); counted, not judged
            return res
        res["accepted"] = True
        if f_pc[0] != 0 or c_pc[0] != 0:
            res["viol"].append(
                ("print-config-error", dict(detail, file_rc=f_pc[0], file_stderr=f_pc[2][-400:], cli_rc=c_pc[0], cli_stderr=c_pc[2][-400:]))
            )
        else:
            fl, cl = parse_cfg(f_pc[1]), parse_cfg(c_pc[1])
            if fl.get(opt) != cl.get(opt):
                res["viol"].append(("file-vs-cli-print-config-line", dict(detail, file_line=fl.get(opt), cli_line=cl.get(opt))))
            elif f_pc[1] != c_pc[1]:
                d = [(k, fl.get(k), cl.get(k)) for k in T["option_order"] if fl.get(k) != cl.get(k)]
                res["viol"].append(("file-vs-cli-print-config-other-lines", dict(detail, differences=d)))
            # the printed value is the value that was set (hidden options are not printed)
            if opt in fl and fl.get(opt) != val and cl.get(opt) != val and not val.startswith("["):
                res["viol"].append(("printed-value-differs-from-set-value", dict(detail, set=val, file_line=fl.get(opt), cli_line=cl.get(opt))))
        fo = dict(f_fmt)
        co = dict(c_fmt)
        if fo != co:
            diffs = {k: {"file": fo[k], "cli": co[k]} for k in fo if fo[k] != co[k]}
            res["viol"].append(("file-vs-cli-format-effect", dict(detail, differences=diffs)))
        # --- fixpoint of the printed text
        if c_pc[0] == 0:
            text = c_pc[1]
            shutil.rmtree(os.path.join(root, "g"))
            wtree(root, dict(GENERIC_TREE, **{"g/rustfmt.toml": text}))
            fx_flags = flags
            x_pc = rf(fx_flags + ["--print-config", "current", os.path.join(root, "g/main.rs")], root, home)
            res["inv"] += 1
            res["traces"] += 1
            if x_pc[0] != 0 or x_pc[1] != text:
                xl, tl = parse_cfg(x_pc[1]), parse_cfg(text)
                d = [(k, tl.get(k), xl.get(k)) for k in T["option_order"] if tl.get(k) != xl.get(k)]
                res["viol"].append(
                    ("print-config-not-a-fixpoint", dict(detail, rc=x_pc[0], stderr=x_pc[2][-500:], differences_option_first_second=d, tail_of_first=text[-200:]))
                )
            if verbose:
                print("fixpoint: rc", x_pc[0], "equal:", x_pc[1] == text, "stderr:", x_pc[2].strip()[-300:])
    finally:
        shutil.rmtree(root, ignore_errors=True)
    return res


def default_fixpoint(T, run):
    """`--print-config default` (stdout and PATH forms) fed back reproduces itself."""
    root = new_dir()
    home = os.path.join(root, "home")
    wtree(root, {"home/keep": "", "d/x.rs": "fn main() {}\n"})
    rc, out, err = rf(["--print-config", "default"], root, home)
    rc2, out2, err2 = rf(["--print-config", "default", os.path.join(root, "written.toml")], root, home)
    written = rd(os.path.join(root, "written.toml"))
    wtree(root, {"d/rustfmt.toml": out})
    rc3, out3, err3 = rf(["--print-config", "current", os.path.join(root, "d/x.rs")], root, home)
    run.evaluated(3)
    run.count("transitions", 0)
    detail = {"spec": {"kind": "default-fixpoint"}, "rc": [rc, rc2, rc3], "stderr": [err[-300:], err2[-300:], err3[-300:]]}
    if rc != 0 or rc2 != 0 or written != out:
        run.violation("F --print-config default: PATH form vs stdout form", "print-config-default-forms-differ", detail)
    if rc3 != 0 or out3 != out:
        a, b = parse_cfg(out), parse_cfg(out3)
        detail["differences"] = [(k, a.get(k), b.get(k)) for k in a if a.get(k) != b.get(k)]
        run.violation("F --print-config default fed back", "print-config-not-a-fixpoint", detail)
    if out != T["se_text"]["2015"]:
        a, b = parse_cfg(out), parse_cfg(T["se_text"]["2015"])
        detail["differences"] = [(k, a.get(k), b.get(k)) for k in a if a.get(k) != b.get(k)]
        run.violation("F --print-config default vs current in an empty tree", "default-differs-from-current-without-config", detail)
    shutil.rmtree(root, ignore_errors=True)
    return 3


# ============================================================================
# part D: deprecated aliases
# ============================================================================

ALIASES = {
    "merge_imports": ("imports_granularity", {"true": '"Crate"', "false": '"Preserve"'}, ['"Module"', '"Preserve"']),
    "fn_args_layout": ("fn_params_layout", {'"Compressed"': '"Compressed"', '"Tall"': '"Tall"', '"Vertical"': '"Vertical"'}, ['"Vertical"', '"Tall"']),
    "hide_parse_errors": ("show_parse_errors", {"true": "false", "false": "true"}, ["true", "false"]),
    "version": ("style_edition", {'"One"': '"2015"', '"Two"': '"2024"'}, ['"2021"', '"2024"', '"2015"']),
}
ALIAS_SRC_OK = (
    "use a::{b};\nuse a::{c10, c9};\nuse a::d::e;\n"
    "fn g(first_parameter: u32, second_parameter: u32, third_parameter: u32, fourth_parameter: u32, fifth: u32) {}\n"
    "fn main() { let x = [1, 2]; }\n"
)
# a parse error inside main: reported on stderr unless parse errors are hidden
ALIAS_SRC_BAD = ALIAS_SRC_OK.replace("[1, 2]", "[1 2]")


def d_case_id(s):
    return "D alias %s=%s in %s; successor %s" % (
        s["alias"], cli_val(s["aval"]), s["aplace"], ("%s in %s" % (cli_val(s["sval"]), s["splace"])) if s["splace"] != "absent" else "absent",
    )


def strip_deprecation(err):
    return "\n".join(l for l in err.splitlines() if not l.startswith("Warning: the `") and "deprecated" not in l)


def d_observe(root, home, fkeys, ckeys, reps, src):
    """print-config + formatting of `src` with the given file keys and --config keys."""
    if os.path.exists(os.path.join(root, "g")):
        shutil.rmtree(os.path.join(root, "g"))
    files = {"g/main.rs": src, "home/keep": ""}
    if fkeys:
        files["g/rustfmt.toml"] = toml_of(fkeys)
    wtree(root, files)
    cfg = ["--config", ",".join(f"{k}={cli_val(v)}" for k, v in ckeys.items())] if ckeys else []
    obs = []
    for _ in range(reps):
        pc = rf(["--unstable-features"] + cfg + ["--print-config", "current", os.path.join(root, "g/main.rs")], root, home)
        fm = rf(["--unstable-features"] + cfg + ["--emit", "stdout", os.path.join(root, "g/main.rs")], root, home)
        obs.append({"pc_rc": pc[0], "pc": pc[1], "fmt_rc": fm[0], "fmt_out": fm[1], "fmt_err": norm_err(strip_deprecation(fm[2])), "argv": cfg})
    return obs


def d_run(s, T, verbose=False):
    root = new_dir()
    home = os.path.join(root, "home")
    res = {"id": d_case_id(s), "viol": [], "inv": 0, "traces": 0}
    try:
        alias, aval, aplace, splace, sval = s["alias"], s["aval"], s["aplace"], s["splace"], s["sval"]
        succ, mapping, _ = ALIASES[alias]
        fkeys, ckeys = {}, {}
        (fkeys if aplace == "file" else ckeys)[alias] = aval
        if splace != "absent":
            (fkeys if splace == "file" else ckeys)[succ] = sval
        reps = 6 if len(ckeys) >= 2 else 1
        src = ALIAS_SRC_BAD if alias == "hide_parse_errors" else ALIAS_SRC_OK
        obs = d_observe(root, home, fkeys, ckeys, reps, src)
        # reference: the same sources with the alias replaced by its documented successor value
        rf_keys, rc_keys = dict(fkeys), dict(ckeys)
        for dct in (rf_keys, rc_keys):
            if alias in dct:
                del dct[alias]
                if splace == "absent":
                    dct[succ] = mapping[aval]
        ref = d_observe(root, home, rf_keys, rc_keys, 1, src)[0]
        res["inv"] += 2 * reps + 2
        res["traces"] += 2 * reps
        want = sval if splace != "absent" else mapping[aval]
        detail = {"spec": s, "file": toml_of(fkeys), "config": obs[0]["argv"], "expected_successor": f"{succ} = {want}",
                  "reference_file": toml_of(rf_keys), "reference_config": ref["argv"]}
        if len({(o["pc_rc"], o["pc"], o["fmt_rc"], o["fmt_out"]) for o in obs}) > 1:
            res["viol"].append(("nondeterministic-config-order", dict(detail, observed=[parse_cfg(o["pc"]).get(succ) for o in obs])))
        o = obs[0]
        got = parse_cfg(o["pc"]).get(succ)
        if verbose:
            print("file:", repr(toml_of(fkeys)), "config:", o["argv"])
            print(f"expected {succ} = {want}; printed {succ} = {got} (rc {o['pc_rc']})")
            print("format rc", o["fmt_rc"], "stderr:", o["fmt_err"][-300:], "\nreference rc", ref["fmt_rc"], "stderr:", ref["fmt_err"][-300:])
        if o["pc_rc"] != 0 or got != want:
            res["viol"].append(("alias-not-mapped-to-successor", dict(detail, printed=f"{succ} = {got}", rc=o["pc_rc"])))
        # same effect as the successor (the alias's own line is printed for `version` only, and then it
        # has the value the successor implies)
        if splace == "absent" and o["pc_rc"] == 0 and ref["pc_rc"] == 0 and o["pc"] != ref["pc"] and got == want:
            a, b = parse_cfg(o["pc"]), parse_cfg(ref["pc"])
            res["viol"].append(("alias-print-config-differs-from-successor", dict(detail, differences=[(k, b.get(k), a.get(k)) for k in b if a.get(k) != b.get(k)])))
        if (o["fmt_rc"], o["fmt_out"], o["fmt_err"]) != (ref["fmt_rc"], ref["fmt_out"], ref["fmt_err"]):
            res["viol"].append(
                ("alias-format-effect-differs-from-successor",
                 dict(detail, alias_run={"rc": o["fmt_rc"], "stdout": o["fmt_out"], "stderr": o["fmt_err"][-1500:]},
                      successor_run={"rc": ref["fmt_rc"], "stdout": ref["fmt_out"], "stderr": ref["fmt_err"][-1500:]}))
            )
    finally:
        shutil.rmtree(root, ignore_errors=True)
    return res


def d_states():
    st = []
    for alias, (succ, mapping, svals) in ALIASES.items():
        for aval in mapping:
            for aplace in ("file", "cli"):
                st.append({"alias": alias, "aval": aval, "aplace": aplace, "splace": "absent", "sval": None})
                for splace in ("file", "cli"):
                    for sval in svals:
                        st.append({"alias": alias, "aval": aval, "aplace": aplace, "splace": splace, "sval": sval})
    return st


# ============================================================================
# part E: width heuristics
# ============================================================================


def e_case_id(s):
    return "E widths mw=%s ush=%s %s" % (s["mw"], s["ush"], ("%s=%s(%s)" % (s["opt"], s["val"], s["mode"])) if s["opt"] else "none-set")


def e_pc(root, home, fkeys, ckeys):
    if os.path.exists(os.path.join(root, "g")):
        shutil.rmtree(os.path.join(root, "g"))
    files = {"g/main.rs": "fn main() {}\n", "home/keep": ""}
    if fkeys:
        files["g/rustfmt.toml"] = toml_of(fkeys)
    wtree(root, files)
    cfg = ["--config", ",".join(f"{k}={cli_val(v)}" for k, v in ckeys.items())] if ckeys else []
    rc, out, err = rf(cfg + ["--print-config", "current", os.path.join(root, "g/main.rs")], root, home)
    return {"rc": rc, "out": out, "err": err[-500:], "argv": cfg, "file": toml_of(fkeys)}


def widths_of(o):
    p = parse_cfg(o["out"])
    return {k: p.get(k) for k in ["max_width", "use_small_heuristics"] + WIDTH_OPTS}


def e_run(s, T, verbose=False):
    root = new_dir()
    home = os.path.join(root, "home")
    res = {"id": e_case_id(s), "viol": [], "agg": [], "inv": 0, "traces": 0}
    try:
        keys = {"max_width": str(s["mw"]), "use_small_heuristics": '"%s"' % s["ush"]}
        if s["opt"]:
            keys[s["opt"]] = str(s["val"])
        # 1. everything in one file (the deterministic reference form)
        f = e_pc(root, home, keys, {})
        res["inv"] += 1
        res["traces"] += 1
        detail = {"spec": s, "file": f["file"], "rc": f["rc"], "stderr": f["err"]}
        if verbose:
            print("file:", repr(f["file"]), "rc", f["rc"], f["err"].strip(), "\n printed:", widths_of(f))
        if f["rc"] != 0:
            res["agg"].append(("print-config-error", "E widths ush=%s: --print-config current fails" % s["ush"], "mw=%s" % s["mw"], detail))
        else:
            w = widths_of(f)
            for k in WIDTH_OPTS:
                try:
                    v = int(w[k])
                except (TypeError, ValueError):
                    res["viol"].append(("width-not-printed", dict(detail, option=k, printed=w[k])))
                    continue
                if v > s["mw"]:
                    if k == s["opt"]:
                        res["viol"].append(("explicit-width-exceeds-max_width", dict(detail, printed=w)))
                    else:
                        res["agg"].append(
                            ("derived-width-exceeds-max_width", "E widths mw=%s ush=%s prints" % (s["mw"], s["ush"]), "%s=%s" % (k, v), dict(detail, printed=w))
                        )
            if w["max_width"] != str(s["mw"]):
                res["viol"].append(("max_width-not-applied", dict(detail, printed=w)))
            if s["opt"] and s["mode"] == "below" and w[s["opt"]] != str(s["val"]):
                res["viol"].append(("explicit-width-not-used", dict(detail, printed=w)))
        # 2. the same keys through --config: 10 processes (the subject applies the keys in hash order).  When
        #    all agree with each other but not with the file form, up to 14 more processes decide between
        #    "deterministically different" and "order dependent".
        key = lambda o: json.dumps((o["rc"], widths_of(o) if o["rc"] == 0 else None), sort_keys=True)
        fkey = key(f)
        obs = [e_pc(root, home, {}, keys) for _ in range(10)]
        distinct = {key(o) for o in obs}
        while len(distinct) == 1 and fkey not in distinct and len(obs) < 24:
            obs.append(e_pc(root, home, {}, keys))
            distinct.add(key(obs[-1]))
        res["inv"] += len(obs)
        res["traces"] += len(obs)
        distinct = sorted(distinct)
        if verbose:
            print("--config:", obs[0]["argv"], len(obs), "runs ->", len(distinct), "distinct results; file form gave", fkey)
            for d in distinct:
                print("   ", d)
        cdetail = dict(detail, argv=obs[0]["argv"], file_result=json.loads(fkey), processes=len(obs), distinct_cli_results=[json.loads(d) for d in distinct])
        if len(distinct) > 1:
            res["viol"].append(("nondeterministic-config-order", cdetail))
        elif distinct[0] != fkey:
            res["viol"].append(("file-vs-cli-widths-differ", cdetail))
        # 3. width option (+ heuristics) in the file, max_width from --config (one key: deterministic).
        #    Only for merged configurations that are valid by Configurations.md (width <= max_width).
        if s["mode"] != "above":
            fk = {k: v for k, v in keys.items() if k != "max_width"}
            fk["max_width"] = "100" if s["mw"] != 100 else "50"
            m = e_pc(root, home, fk, {"max_width": str(s["mw"])})
            res["inv"] += 1
            res["traces"] += 1
            if verbose:
                print("mixed: file", repr(m["file"]), "argv", m["argv"], "->", widths_of(m) if m["rc"] == 0 else m["err"])
            if key(m) != fkey:
                res["agg"].append(
                    ("cli-max_width-over-file-width-option-differs-from-single-file",
                     "E widths file(max_width=%s)+--config max_width=%s ush=%s %s" % (fk["max_width"], s["mw"], s["ush"], s["mode"] or "none-set"),
                     s["opt"] or "-",
                     dict(detail, mixed_file=m["file"], mixed_argv=m["argv"], mixed_rc=m["rc"], mixed_result=widths_of(m) if m["rc"] == 0 else m["err"],
                          single_file_result=json.loads(fkey)))
                )
    finally:
        shutil.rmtree(root, ignore_errors=True)
    return res


def e_states(thorough):
    st = []
    for mw in (20, 50, 100, 200):
        for ush in ("Default", "Off", "Max"):
            st.append({"mw": mw, "ush": ush, "opt": None, "val": None, "mode": None})
            for opt in WIDTH_OPTS:
                below = {20: 10, 50: 25, 100: 50, 200: 150}[mw]
                st.append({"mw": mw, "ush": ush, "opt": opt, "val": below, "mode": "below"})
                st.append({"mw": mw, "ush": ush, "opt": opt, "val": mw + 10, "mode": "above"})
                if thorough:
                    st.append({"mw": mw, "ush": ush, "opt": opt, "val": mw, "mode": "below"})
    return st


# ============================================================================
# tables measured on the simplest state
# ============================================================================


def tables():
    """The defaults of every style edition, measured three ways that the property says are equivalent:
    `style_edition = "N"` in a file next to the input, `--style-edition N`, `--config style_edition=N`."""
    root = new_dir()
    home = os.path.join(root, "home")
    wtree(root, {"home/keep": "", "e/x.rs": "fn main() {}\n"})
    T = {"se_text": {}, "se_defaults": {}, "violations": []}
    for se in ("2015", "2018", "2021", "2024", "2027"):
        wtree(root, {f"f{se}/x.rs": "fn main() {}\n", f"f{se}/rustfmt.toml": f'style_edition = "{se}"\n'})
        routes = {
            "file": rf(["--print-config", "current", os.path.join(root, f"f{se}/x.rs")], root, home),
            "--style-edition": rf(["--style-edition", se, "--print-config", "current", os.path.join(root, "e/x.rs")], root, home),
            "--config": rf(["--config", "style_edition=" + se, "--print-config", "current", os.path.join(root, "e/x.rs")], root, home),
        }
        if routes["file"][0] != 0:
            print(f"machinery error: cannot read the defaults of style edition {se}: {routes['file'][2]}", file=sys.stderr)
            sys.exit(2)
        T["se_text"][se] = routes["file"][1]
        T["se_defaults"][se] = parse_cfg(routes["file"][1])
        if len({(r[0], r[1]) for r in routes.values()}) > 1 or T["se_defaults"][se].get("style_edition") != '"%s"' % se:
            base = T["se_defaults"][se]
            T["violations"].append((
                "T defaults of style edition %s" % se,
                "style-edition-defaults-differ-by-source",
                {"spec": {"kind": "tables"}, "kind": "T",
                 "differences": {k: [(o, base.get(o), parse_cfg(r[1]).get(o)) for o in base if parse_cfg(r[1]).get(o) != base.get(o)] for k, r in routes.items()},
                 "rc": {k: r[0] for k, r in routes.items()}},
            ))
    T["option_order"] = list(T["se_defaults"]["2015"].keys())
    T["thorough"] = (os.environ.get("VERIF_TIER") or (sys.argv[1] if len(sys.argv) > 1 else "")) == "thorough"
    T["se_dependent"] = sorted(
        k for k in T["option_order"] if len({T["se_defaults"][se].get(k) for se in T["se_defaults"]}) > 1
    )
    shutil.rmtree(root, ignore_errors=True)
    return T


# ============================================================================
# driver
# ============================================================================

KINDS = {"A": a_run, "B": b_run, "C": c_run, "D": d_run, "E": e_run}


def run_spec(kind, spec, T, verbose=False):
    return KINDS[kind](spec, T, verbose)


def main():
    global SCRATCH
    if len(sys.argv) >= 3 and sys.argv[1] == "--replay":
        return replay(sys.argv[2])
    require_bins(RUSTFMT)
    run = Run(PROP, "model_checking", RULE, ASSUMPTIONS)
    SCRATCH = Scratch("c14")
    try:
        explore(run)
    finally:
        SCRATCH.cleanup()


def explore(run):
    thorough = run.thorough
    T = tables()
    run.extra["style_edition_dependent_defaults"] = T["se_dependent"]
    run.evaluated(15)
    for cid, what, detail in T["violations"]:
        run.violation(cid, what, detail)
    if len(T["se_dependent"]) < 2:  # style_edition itself + at least one more
        print("[C14] machinery error: no style-edition-dependent default found", file=sys.stderr)
        sys.exit(2)
    opts = option_table()
    if len(opts) < 60:
        print("[C14] machinery error: option table too small", file=sys.stderr)
        sys.exit(2)

    work = []  # (kind, spec)
    a = a_states(thorough)
    b = b_states(thorough)
    work += [("A", s) for s in a]
    work += [("B", s) for s in b]
    c = []
    for name, kind, variants in opts:
        for v in values_for(name, kind, variants, T["se_defaults"]["2015"], thorough):
            c.append({"opt": name, "val": v})
    work += [("C", s) for s in c]
    d = d_states()
    work += [("D", s) for s in d]
    e = e_states(thorough)
    work += [("E", s) for s in e]
    run.extra["parts"] = {"A_resolve": len(a), "B_multi": len(b), "C_equiv": len(c), "D_alias": len(d), "E_widths": len(e)}
    run.extra["bounds"] = {
        "levels": 4 if thorough else 3,
        "override_sets": len(override_sets(thorough)),
        "options": len(opts),
    }

    results = pmap(work, T)
    # every failing case is run a second time before it is reported
    bad = [i for i, r in enumerate(results) if r["viol"]]
    second = dict(zip(bad, pmap([work[i] for i in bad], T))) if bad else {}

    sampled = {}
    agg = {}  # (what, group) -> [detail, members, contexts]
    counts = {k: 0 for k in KINDS}
    chosen_hist = {}
    accepted = 0
    rejected = []
    for idx, ((kind, spec), r) in enumerate(zip(work, results)):
        counts[kind] += 1
        run.evaluated(r["inv"])
        run.count("traces", r["traces"])
        run.count("states")
        nt = False
        if kind == "A":
            nt = a_nontrivial(spec)
            chosen_hist[str(r.get("chosen"))] = chosen_hist.get(str(r.get("chosen")), 0) + 1
        elif kind == "B":
            nt = b_nontrivial(spec)
        elif kind == "C":
            if r.get("accepted"):
                accepted += 1
            if r.get("cli_rejected"):
                rejected.append(r["id"] + (" (accepted in a file)" if r.get("file_accepted") else " (rejected in a file as well)"))
            nt = T["se_defaults"]["2015"].get(spec["opt"]) != spec["val"]
        elif kind == "D":
            nt = True
        elif kind == "E":
            nt = True
        if nt:
            run.nontrivial_case(r["id"])
        if nt and sampled.get(kind, 0) < (3 if kind == "A" else 1) and (kind != "A" or (len(spec["ov"].get("config", [])) >= 1 and sum(c != "-" for c in spec["levels"]) >= 2)):
            sampled[kind] = sampled.get(kind, 0) + 1
            run.sample({"case": r["id"], "spec": spec, "config_chosen_by_model": r.get("chosen"), "violations": [w for w, _ in r["viol"]]}, limit=8)
        viol = list(r["viol"])
        if viol:
            r2 = second[idx]
            run.evaluated(r2["inv"])
            w1 = sorted(w for w, _ in viol)
            w2 = sorted(w for w, _ in r2["viol"])
            if w1 != w2 and "nondeterministic-config-order" not in w1 + w2:
                run.violation(r["id"], "nondeterministic", {"kind": kind, "spec": spec, "first": w1, "second": w2, "detail": viol[0][1]})
            else:
                for what, detail in viol:
                    run.violation(r["id"], what, dict(detail, kind=kind))
        for what, group, member, detail in r.get("agg", []):
            key = (what, group)
            if key not in agg:
                agg[key] = [dict(detail, kind=kind), set(), []]
            agg[key][1].add(member)
            agg[key][2].append(r["id"])
    for (what, group), (detail, members, ctx) in agg.items():
        run.violation("%s [%s]" % (group, ", ".join(sorted(members))), what, dict(detail, seen_in_cases=ctx[:40], cases=len(ctx)))

    default_fixpoint(T, run)
    run.counters["transitions"] = run.evaluations
    run.count("option_value_pairs_accepted_by_--config", accepted)
    run.extra["pairs_rejected_by_--config (outside the quantifier)"] = rejected
    run.extra["model_choice_histogram_part_A"] = chosen_hist
    run.extra["cases_per_part"] = counts
    # vacuity: every kind of configuration source must have won somewhere, accepted pairs must exist
    need = ["None", "d0P", "d0D", "d1P", "d1D", "d2P", "d2D", "homeP", "homeD", "xdgP", "xdgD", "cpfile", "cpdirP", "cpdirD", "missing"]
    missing = [k for k in need if chosen_hist.get(k, 0) < 1]
    if missing or accepted < 100:
        print(f"[C14] vacuous run: sources never chosen {missing}, accepted pairs {accepted}", file=sys.stderr)
        sys.exit(2)
    print(
        f"[C14] states={run.counters.get('states')} invocations={run.evaluations} parts={counts} "
        f"accepted option/value pairs={accepted} rejected by --config={len(rejected)}",
        file=sys.stderr,
    )
    run.exhaustive = True
    run.finish()


def replay(path):
    global SCRATCH
    require_bins(RUSTFMT)
    rec = json.load(open(path))
    det = rec["detail"]
    print(f"property {rec['property']}  case: {rec['case']}\nwhat: {rec['what']}")
    SCRATCH = Scratch("c14r")
    try:
        T = tables()
        spec = det.get("spec")
        kind = det.get("kind")
        if spec and spec.get("kind") == "tables":
            for cid, what, detail in T["violations"]:
                print("RESULT: violation", cid, what, json.dumps(detail, indent=1)[:3000])
            if not T["violations"]:
                print("RESULT: no violation on replay")
            return 1 if T["violations"] else 0
        if spec and spec.get("kind") == "default-fixpoint":
            class R:  # minimal stand-in printing violations
                def evaluated(self, n=1):
                    pass

                def count(self, *a):
                    pass

                def violation(self, cid, what, detail):
                    print("VIOLATION (replayed):", cid, what, json.dumps(detail, indent=1)[:3000])

            default_fixpoint(T, R())
            return 0
        if kind not in KINDS:
            print("replay file has no runnable spec")
            return 2
        print("spec:", json.dumps(spec))
        for k in ("tree", "file", "cli", "config", "argv"):
            if k in det:
                print(f"{k}: {json.dumps(det[k], indent=1)}")
        r = run_spec(kind, spec, T, verbose=True)
        allv = [(w, d) for w, d in r["viol"]] + [(w + " (" + g + ": " + m + ")", d) for w, g, m, d in r.get("agg", [])]
        if not allv:
            print("RESULT: no violation on replay")
            return 0
        for w, d in allv:
            print("RESULT: violation", w)
            slim = {k: v for k, v in d.items() if k not in ("spec", "tree")}
            print(json.dumps(slim, indent=1, default=str)[:6000])
        return 1
    finally:
        SCRATCH.cleanup()


if __name__ == "__main__":
    sys.exit(main() or 0)
