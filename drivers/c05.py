#!/usr/bin/env python3
"""C05 - A failing run never damages source files.

Fault enumeration on the REAL rustfmt binary.

  case = module-tree shape (1-4 files)
       x fault set (quick: one fault; thorough: also every pair of faults in different files)
       x emit mode {files, files+backup, stdout, check, json, checkstyle}
       x command line {faulty root alone, healthy root BEFORE it, healthy root AFTER it}

A fault is (kind, position): the position ranges over EVERY file of the shape (root, every out-of-line
module), so every "n-th module visited" is covered whatever order the resolver uses.  Every file of
every tree, including the healthy files of the faulty crate, is valid but UNFORMATTED and carries a
fixed old mtime, so any write is visible (content hash) and even a same-bytes rewrite is (mtime).

Oracle (from the property text only):
  faulty root's tree  sha256 + mtime of every file unchanged, no file appears or disappears
                      (.bk / .tmp included), symlinks unchanged;
  process             stderr non-empty, exit status exactly 1;
  healthy root        files / files+backup mode: every file equals its formatted text (reference:
                      `rustfmt --emit stdout` on that root alone) unless the fault is global to the
                      command line (bad --config-path);
                      every mode: every file afterwards is its complete original or its complete
                      formatted text; any additional file is a complete original / formatted copy.

Reporting.  A fault tree (shape + fault set) is run in all 18 (emit mode, command line) cells.  For each
kind of violation (`what`) the set of violating cells is the tree's signature and is part of the reported
`what`, e.g. `healthy-root-not-formatted [files: roots F,H; files+backup: roots F,H]`; the case id is the
tree, e.g. `shape=S1-root-only fault=toml-malformed`.  Trees with the same fault kinds at the same kind of
position (root / module) and the same (what, signature) form one group, reported once at its smallest
tree (shapes and positions are enumerated simplest first).  A violating cell of a two-fault tree is
folded into the one-fault tree obtained by dropping one fault when that tree violates the same way in
the same cell.  So a listed finding that starts failing in one more cell, position class or fault kind
is a new violation.
"""

import json
import os
import shutil
import sys
import threading
import time

sys.path.insert(0, os.path.dirname(os.path.abspath(__file__)))
import common  # noqa: E402
from common import RUSTFMT, Run, Scratch, base_env, require_bins  # noqa: E402

PROP = "C05"
RUSTFMT = os.environ.get("C05_RUSTFMT_BIN") or RUSTFMT  # mutation demonstrations only

RULE = (
    "the fault was actually hit: non-zero exit status and a diagnostic on stderr that names the faulty file, "
    "module or configuration item; distinct = distinct (shape, fault set, emit mode, command line)"
)
ASSUMPTIONS = [
    "the reference formatted text of a healthy tree is what `rustfmt --emit stdout <root>` prints for it when run "
    "alone (split at the `<path>:` headers of the known files)",
    "a configuration fault found through the faulty root's own directory belongs to that root only; the healthy "
    "root lives in a sibling directory without configuration and must still be formatted; a bad --config-path is "
    "global to the command line, so for it the healthy root is only required to be whole (original or formatted)",
    "in the non-writing emit modes (stdout, check, json, checkstyle) the healthy root is only required to be whole; "
    "what is printed for it is C06's subject",
    "the sandbox runs as root, so permission bits are not a fault: unreadable = invalid UTF-8, dangling symlink, "
    "directory in place of the file",
    "a violation is identified by (fault tree, what, set of violating (mode, command line) cells); trees with the "
    "same fault kinds at the same position class (root / module) and the same (what, cells) are reported once, at "
    "the smallest tree; a violating cell of a two-fault tree is folded into the one-fault sub-tree that violates "
    "the same way in the same cell",
]

# --------------------------------------------------------------------------------------------- trees


def body(name):
    """valid, unformatted: rustfmt rewrites it to `fn name() {\n    let x = 1;\n}`"""
    return f"fn   {name}( ){{ let  x=1 ; }}\n"


class Mod:
    def __init__(self, rel, parent, decl, name, alt, content_only=False):
        self.rel, self.parent, self.decl, self.name, self.alt = rel, parent, decl, name, alt
        # one of several candidate files of a `#[cfg_attr(.., path = ..)] mod x;` declaration: the module still
        # resolves through the other candidate when this file is absent, so only CONTENT faults are faults here
        self.content_only = content_only


class Shape:
    def __init__(self, sid, files, mods, ambient=None):
        self.id = sid
        self.files = files  # ordered {rel: text}; first = root
        # files that are part of every tree of this shape but never a fault position and never expected to be
        # formatted (an `ignore`d module file and the configuration that ignores it)
        self.ambient = ambient or {}
        self.mods = {m.rel: m for m in mods}
        self.root = next(iter(files))


def make_shapes():
    s = []
    s.append(Shape("S1-root-only", {"lib.rs": body("root")}, []))
    s.append(
        Shape(
            "S2-root-child",
            {"lib.rs": "mod a;\n" + body("root"), "a.rs": body("a")},
            [Mod("a.rs", "lib.rs", "mod a;", "a", "a/mod.rs")],
        )
    )
    s.append(
        Shape(
            "S3-chain-of-three",
            {"lib.rs": "mod a;\n" + body("root"), "a.rs": "mod b;\n" + body("a"), "a/b.rs": body("b")},
            [Mod("a.rs", "lib.rs", "mod a;", "a", "a/mod.rs"), Mod("a/b.rs", "a.rs", "mod b;", "b", "a/b/mod.rs")],
        )
    )
    s.append(
        Shape(
            "S4-two-children",
            {"lib.rs": "mod a;\nmod b;\n" + body("root"), "a.rs": body("a"), "b.rs": body("b")},
            [Mod("a.rs", "lib.rs", "mod a;", "a", "a/mod.rs"), Mod("b.rs", "lib.rs", "mod b;", "b", "b/mod.rs")],
        )
    )
    s.append(
        Shape(
            "S5-path-attr-child",
            {"lib.rs": '#[path = "other/p.rs"]\nmod a;\n' + body("root"), "other/p.rs": body("p")},
            [Mod("other/p.rs", "lib.rs", '#[path = "other/p.rs"]\nmod a;', "a", None)],
        )
    )
    s.append(
        Shape(
            "S6-cfg-if-children",
            {
                "lib.rs": "cfg_if! { if #[cfg(x)] { mod a; } else { mod b; } }\n" + body("root"),
                "a.rs": body("a"),
                "b.rs": body("b"),
            },
            [Mod("a.rs", "lib.rs", "mod a;", "a", "a/mod.rs"), Mod("b.rs", "lib.rs", "mod b;", "b", "b/mod.rs")],
        )
    )
    s.append(
        Shape(
            "S7-inline-grandchild",
            {"lib.rs": "mod inl { mod g; }\n" + body("root"), "inl/g.rs": body("g")},
            [Mod("inl/g.rs", "lib.rs", "mod g;", "g", "inl/g/mod.rs")],
        )
    )
    s.append(
        Shape(
            "S8-two-children-one-grandchild",
            {
                "lib.rs": "mod a;\nmod b;\n" + body("root"),
                "a.rs": "mod c;\n" + body("a"),
                "a/c.rs": body("c"),
                "b.rs": body("b"),
            },
            [
                Mod("a.rs", "lib.rs", "mod a;", "a", "a/mod.rs"),
                Mod("a/c.rs", "a.rs", "mod c;", "c", "a/c/mod.rs"),
                Mod("b.rs", "lib.rs", "mod b;", "b", "b/mod.rs"),
            ],
        )
    )
    cfg_decl = '#[cfg_attr(c, path = "imp_alt.rs")]\nmod imp;'
    s.append(
        Shape(
            "S9-cfg-attr-path-two-candidates",
            {"lib.rs": cfg_decl + "\n" + body("root"), "imp.rs": body("imp"), "imp_alt.rs": body("imp_alt")},
            [
                Mod("imp.rs", "lib.rs", cfg_decl, "imp", None, content_only=True),
                Mod("imp_alt.rs", "lib.rs", cfg_decl, "imp", None, content_only=True),
            ],
        )
    )
    s.append(
        Shape(
            "S10-child-with-cfg-attr-path-two-candidates",
            {
                "lib.rs": "mod a;\n" + body("root"),
                "a.rs": cfg_decl + "\n" + body("a"),
                "a/imp.rs": body("imp"),
                "imp_alt.rs": body("imp_alt"),  # a #[path] is relative to the directory of the declaring FILE
            },
            [
                Mod("a.rs", "lib.rs", "mod a;", "a", "a/mod.rs"),
                Mod("a/imp.rs", "a.rs", cfg_decl, "imp", None, content_only=True),
                Mod("imp_alt.rs", "a.rs", cfg_decl, "imp", None, content_only=True),
            ],
        )
    )
    # History inside one parse session: a module file that is on the `ignore` list and has a (recoverable)
    # syntax error of its own is visited before / between the files that can carry the fault. Diagnostics of
    # ignored files are silenced and reset; that must not leak to the files that are not ignored.
    ignored = {"rustfmt.toml": 'ignore = ["a_gen.rs"]\n', "a_gen.rs": "pub fn gen() { let x = 1 let y = 2; }\n"}
    s.append(
        Shape(
            "S11-ignored-broken-module-first",
            {"lib.rs": "mod a_gen;\nmod b;\nmod c;\n" + body("root"), "b.rs": body("b"), "c.rs": body("c")},
            [Mod("b.rs", "lib.rs", "mod b;", "b", "b/mod.rs"), Mod("c.rs", "lib.rs", "mod c;", "c", "c/mod.rs")],
            ambient=ignored,
        )
    )
    s.append(
        Shape(
            "S12-ignored-broken-module-between",
            {"lib.rs": "mod b;\nmod a_gen;\nmod c;\n" + body("root"), "b.rs": body("b"), "c.rs": body("c")},
            [Mod("b.rs", "lib.rs", "mod b;", "b", "b/mod.rs"), Mod("c.rs", "lib.rs", "mod c;", "c", "c/mod.rs")],
            ambient=ignored,
        )
    )
    return s


SHAPES = make_shapes()
SHAPE_BY_ID = {s.id: s for s in SHAPES}

HEALTHY = {"lib.rs": "mod   m ;\n" + body("h"), "m.rs": "pub fn   m( ){ let  y=2 ; }\n"}

# --------------------------------------------------------------------------------------------- faults

# texts copied from /repo/tests/parser/ (inputs that made the rustc parser panic / are fatal)
PANIC_INPUTS = {
    "parser-issue-4126": 'fn foo() {\n    if bar && if !baz {\n        next_is_none = Some(true);\n    }\n    println!("foo");\n}\n',
    "parser-issue-4466": 'fn main() {\n    if true {\n        println!("answer: {}", a_func();\n    } else {\n        println!("don\'t think so.");\n    }\n}\n\nfn a_func() -> i32 {\n    42\n}',
    "parser-stashed-diag": "#![u={static N;}]\n\nfn main() {}\n",
    "parser-stashed-diag2": "trait Trait<'1> { s> {}\n\nfn main() {}\n",
    "parser-issue-4418": "}",
}

# kind -> function(original text) -> bytes
CONTENT_FAULTS = {
    "lex-unterminated-string": lambda o: (o + 'fn q() { let s = "abc; }\n').encode(),
    "lex-unterminated-block-comment": lambda o: (o + "/* never closed\nfn q() {}\n").encode(),
    "lex-nul-byte": lambda o: (o + "fn q() { \x00 }\n").encode(),
    "unclosed-delimiter": lambda o: (o + "fn q() { let v = (1, 2);\n").encode(),
    "recoverable-missing-semicolon": lambda o: (o + "fn q() { let x = 1 let y = 2; }\n").encode(),
    "invalid-utf8": lambda o: o.encode() + b"// \xff\xfe caf\xe9\n",
}
for _k, _t in PANIC_INPUTS.items():
    CONTENT_FAULTS[_k] = (lambda t: lambda o: t.encode())(_t)
# thorough only: the panic input followed by the file's own declarations and items
CONTENT_FAULTS_EXTRA = {}
for _k, _t in PANIC_INPUTS.items():
    CONTENT_FAULTS_EXTRA[_k + "+rest"] = (lambda t: lambda o: (t + "\n" + o).encode())(_t)

MODULE_FAULTS = ["missing-file", "dangling-symlink", "directory-in-place", "both-file-and-dir-mod", "both-file-and-dir-mod+same-name-beside-parent", "path-attr-missing-file"]
ROOT_PATH_FAULTS = ["missing-file", "dangling-symlink", "directory-in-place"]

CONFIG_FAULTS = {
    "toml-malformed": ("rustfmt.toml", "max_width = \n"),
    "toml-unknown-value": ("rustfmt.toml", 'max_width = "wide"\n'),
    "required-version-mismatch": ("rustfmt.toml", 'required_version = "0.0.1"\n'),
    "bad-config-path": None,  # global: --config-path <missing file>
}
CONFIG_FAULTS_EXTRA = {
    "dot-toml-malformed": (".rustfmt.toml", "max_width = \n"),
    "toml-invalid-utf8": ("rustfmt.toml", b"max_width = 100 # \xff\n"),
    "config-path-malformed-file": None,  # global: --config-path <malformed file outside both roots>
}
GLOBAL_FAULTS = {"bad-config-path", "config-path-malformed-file"}

MODES = [
    ("files", []),
    ("files+backup", ["--backup"]),
    ("stdout", ["--emit", "stdout"]),
    ("check", ["--check"]),
    ("json", ["--emit", "json"]),
    ("checkstyle", ["--emit", "checkstyle"]),
]
MODE_ARGS = dict(MODES)
WRITING = {"files", "files+backup"}
ARRANGEMENTS = ["F", "H,F", "F,H"]


def fid(f):
    return f["kind"] + ("@" + f["at"] if f.get("at") else "")


def faults_id(faults):
    return "+".join(fid(f) for f in faults)


def single_faults(shape, thorough):
    """simplest first: position (root, then modules in listed order), then kind"""
    out = []
    content = dict(CONTENT_FAULTS)
    if thorough:
        content.update(CONTENT_FAULTS_EXTRA)
    for rel in shape.files:
        for k in content:
            out.append({"kind": k, "at": rel})
        if rel == shape.root:
            for k in ROOT_PATH_FAULTS:
                out.append({"kind": k, "at": rel})
        elif not shape.mods[rel].content_only:
            for k in MODULE_FAULTS:
                if k.startswith("both-file-and-dir-mod") and shape.mods[rel].alt is None:
                    continue
                # the decoy variant needs a declaring file that is itself a non-root, non-mod.rs module file
                if k.endswith("+same-name-beside-parent") and (shape.mods[rel].parent == shape.root or "/" not in rel):
                    continue
                out.append({"kind": k, "at": rel})
    cfg = dict(CONFIG_FAULTS)
    if thorough:
        cfg.update(CONFIG_FAULTS_EXTRA)
    for k in cfg:
        out.append({"kind": k, "at": None})
    return out


def is_config(f):
    return f["kind"] in CONFIG_FAULTS or f["kind"] in CONFIG_FAULTS_EXTRA


def build_faulty_tree(shape, faults):
    """-> (entries {rel: ["file", bytes] | ["symlink", target] | ["dir"]}, extra argv, outside files, needles)
    or None when the faults cannot be combined (e.g. the declaration to edit was replaced)."""
    text = dict(shape.files)  # rel -> str (still healthy)
    entries = {}
    extra = []
    outside = {}
    needles = []
    # 1. declaration edits (on healthy text)
    for f in faults:
        if f["kind"] == "path-attr-missing-file":
            m = shape.mods[f["at"]]
            if m.decl.startswith("#[path"):
                new = m.decl.replace(m.rel, "other/nope.rs")
            else:
                new = '#[path = "nope/missing.rs"] ' + m.decl
            if m.decl not in text[m.parent]:
                return None
            text[m.parent] = text[m.parent].replace(m.decl, new, 1)
            needles += ["nope", m.name]
    for rel, t in text.items():
        entries[rel] = ["file", t.encode()]
    for rel, t in shape.ambient.items():
        entries[rel] = ["file", t.encode()]
    # 2. content faults
    allc = dict(CONTENT_FAULTS)
    allc.update(CONTENT_FAULTS_EXTRA)
    for f in faults:
        if f["kind"] in allc:
            entries[f["at"]] = ["file", allc[f["kind"]](text[f["at"]])]
            needles.append(os.path.basename(f["at"]))
    # a whole-file replacement of the parent removes the declaration that a path-attr fault edited
    for f in faults:
        if f["kind"] == "path-attr-missing-file":
            m = shape.mods[f["at"]]
            if b"nope" not in entries[m.parent][1]:
                return None
    # 3. path faults
    for f in faults:
        k, rel = f["kind"], f["at"]
        if k == "missing-file":
            del entries[rel]
            needles += [os.path.basename(rel)]
        elif k == "dangling-symlink":
            entries[rel] = ["symlink", "no-such-target.rs"]
            needles += [os.path.basename(rel)]
        elif k == "directory-in-place":
            entries[rel] = ["dir"]
            entries[rel + "/inner.rs"] = ["file", body("inner").encode()]
            needles += [os.path.basename(rel)]
        elif k.startswith("both-file-and-dir-mod"):
            m = shape.mods[rel]
            entries[m.alt] = ["file", body(m.name + "_alt").encode()]
            needles += [os.path.basename(rel), m.name]
            if k.endswith("+same-name-beside-parent"):
                # an undeclared file of the same name next to the declaring file: the ambiguity must not be
                # "resolved" by falling back to it
                beside = os.path.join(os.path.dirname(m.parent), m.name + ".rs")
                if beside in entries:
                    return None
                entries[beside] = ["file", body(m.name + "_beside").encode()]
    # 4. configuration faults
    for f in faults:
        k = f["kind"]
        spec = CONFIG_FAULTS.get(k) or CONFIG_FAULTS_EXTRA.get(k)
        if spec:
            name, t = spec
            entries[name] = ["file", t if isinstance(t, bytes) else t.encode()]
            needles += [name, "required version", "TOML", "toml"]
        elif k == "bad-config-path":
            extra += ["--config-path", "no-such-dir/rustfmt.toml"]
            needles += ["no-such-dir", "config"]
        elif k == "config-path-malformed-file":
            outside["cfg/rustfmt.toml"] = b"max_width = \n"
            extra += ["--config-path", "cfg/rustfmt.toml"]
            needles += ["TOML", "toml", "config"]
    return entries, extra, outside, needles


# --------------------------------------------------------------------------------------------- running

_tls = threading.local()
_POOL = None


def pmap(fn, items):
    """Deterministic-order map over worker PROCESSES (fork): the Python side of a case (building the
    tree, hashing it twice) is as expensive as the subject run, so threads would serialise on the GIL."""
    global _POOL
    jobs = int(os.environ.get("VERIF_JOBS", "0") or 0) or (os.cpu_count() or 8)
    if jobs <= 1:
        return [fn(i) for i in items]
    if _POOL is None:
        import multiprocessing

        _POOL = multiprocessing.get_context("fork").Pool(jobs)
    return _POOL.map(fn, items, chunksize=2)


def pool_close():
    global _POOL
    if _POOL is not None:
        _POOL.terminate()
        _POOL.join()
        _POOL = None
SCRATCH = None
REF = {}  # shape id / "H" -> {rel: formatted bytes}


def workdir():
    d = getattr(_tls, "dir", None)
    if d is None:
        d = SCRATCH.path(f"w{os.getpid()}-{threading.get_ident()}")
        _tls.dir = d
    return d


def materialise(base, entries):
    for rel, e in entries.items():
        p = os.path.join(base, rel)
        if e[0] == "dir":
            os.makedirs(p, exist_ok=True)
    for rel, e in entries.items():
        p = os.path.join(base, rel)
        if e[0] == "dir":
            continue
        os.makedirs(os.path.dirname(p), exist_ok=True)
        if e[0] == "file":
            with open(p, "wb") as fh:
                fh.write(e[1])
        else:
            os.symlink(e[1], p)


def set_mtimes_nofollow(root):
    t = common.FIXED_MTIME
    for d, dirs, fs in os.walk(root):
        for f in fs + dirs:
            p = os.path.join(d, f)
            if not os.path.islink(p):
                os.utime(p, (t, t))


def argv_for(mode, arrangement, extra, root_rel):
    roots = []
    for r in arrangement.split(","):
        roots.append("F/" + root_rel if r == "F" else "H/lib.rs")
    return [RUSTFMT, "--color", "never"] + MODE_ARGS[mode] + extra + roots


def execute(entries, extra, outside, root_rel, mode, arrangement, base=None):
    """Builds the case directory, runs rustfmt once, returns the observation."""
    base = base or workdir()
    shutil.rmtree(base, ignore_errors=True)
    os.makedirs(os.path.join(base, "F"))
    materialise(os.path.join(base, "F"), entries)
    if "H" in arrangement:
        materialise(os.path.join(base, "H"), {k: ["file", v.encode()] for k, v in HEALTHY.items()})
    for rel, b in outside.items():
        materialise(base, {rel: ["file", b]})
    set_mtimes_nofollow(base)
    before = common.snapshot(base)
    argv = argv_for(mode, arrangement, extra, root_rel)
    rc, out, err = common.run(argv, cwd=base, env=base_env(), timeout=60)
    after = common.snapshot(base)
    return {"argv": argv, "rc": rc, "stdout": out, "stderr": err, "before": before, "after": after, "base": base}


def judge(obs, entries, mode, arrangement, is_global):
    """-> list of (what, detail). The oracle; nothing here looks at rustfmt's source."""
    v = []
    before, after, base = obs["before"], obs["after"], obs["base"]
    # 1. the faulty root's tree (and anything else that is not the healthy root) is untouched
    for rel in sorted(set(before) | set(after)):
        if rel.startswith("H/"):
            continue
        b, a = before.get(rel), after.get(rel)
        if b == a:
            continue
        if b is None:
            kind = "backup-or-temp-file-appeared" if rel.endswith((".bk", ".tmp")) else "file-appeared"
            v.append((kind, {"file": rel}))
        elif a is None:
            v.append(("file-disappeared", {"file": rel}))
        elif b[0] != a[0]:
            now = _read(os.path.join(base, rel))
            v.append(("faulty-root-file-changed", {"file": rel, "now": _show(now)}))
        else:
            v.append(("faulty-root-file-touched", {"file": rel, "mtime_before": b[1], "mtime_after": a[1]}))
    # 2. diagnostic and exit status
    if not obs["stderr"].strip():
        v.append(("no-diagnostic", {}))
    if obs["rc"] != 1:
        v.append(("exit-status-not-1", {"rc": obs["rc"]}))
    # 3. the healthy root
    if "H" in arrangement:
        ref = REF["H"]
        for rel, orig in HEALTHY.items():
            p = os.path.join(base, "H", rel)
            now = _read(p)
            if now is None:
                v.append(("healthy-root-file-lost", {"file": "H/" + rel}))
                continue
            if now == ref[rel]:
                continue
            if now == orig.encode():
                if mode in WRITING and not is_global:
                    v.append(("healthy-root-not-formatted", {"file": "H/" + rel}))
            else:
                v.append(("healthy-root-file-partial", {"file": "H/" + rel, "now": _show(now)}))
        for rel in sorted(after):
            if not rel.startswith("H/") or rel[2:] in HEALTHY:
                continue
            stem = os.path.splitext(rel[2:])[0] + ".rs"
            now = _read(os.path.join(base, rel))
            ok = stem in HEALTHY and now in (HEALTHY[stem].encode(), ref[stem])
            if not ok:
                v.append(("healthy-root-stray-partial-file", {"file": rel, "now": _show(now)}))
    # de-duplicate on `what` (first file wins, the others are listed)
    out = {}
    for what, d in v:
        if what in out:
            out[what].setdefault("more", []).append(d)
        else:
            out[what] = d
    return sorted(out.items())


def _read(p):
    try:
        with open(p, "rb") as fh:
            return fh.read()
    except OSError:
        return None


def _show(b):
    return None if b is None else b.decode("latin-1")


def nontrivial(obs, needles):
    if obs["rc"] == 0:
        return False
    e = obs["stderr"].decode("utf-8", "replace")
    return any(n in e for n in needles)


def entries_json(entries):
    return {rel: ([e[0], e[1].decode("latin-1")] if e[0] == "file" else list(e)) for rel, e in entries.items()}


def entries_from_json(j):
    return {rel: (["file", e[1].encode("latin-1")] if e[0] == "file" else list(e)) for rel, e in j.items()}


def tree_id(shape_id, faults):
    return f"shape={shape_id} fault={faults_id(faults)}"


def cell_id(shape_id, faults, mode, arrangement):
    return f"{tree_id(shape_id, faults)} mode={mode} roots={arrangement}"


CELLS = [(m, a) for m, _ in MODES for a in ARRANGEMENTS]


def signature(cells):
    """compact, stable text for a set of (mode, command line) cells"""
    cells = set(cells)
    if cells == set(CELLS):
        return "every mode, every command line"
    per_mode = {m: [a for a in ARRANGEMENTS if (m, a) in cells] for m, _ in MODES}
    sets = {tuple(v) for v in per_mode.values()}
    if len(sets) == 1:
        return "every mode, roots " + "|".join(next(iter(sets)))
    return "; ".join(f"{m}: roots {'|'.join(v)}" for m, v in per_mode.items() if v)


def run_cell(entries, extra, outside, root_rel, mode, arr, is_global, needles, base=None):
    obs = execute(entries, extra, outside, root_rel, mode, arr, base=base)
    viol = judge(obs, entries, mode, arr, is_global)
    return obs, viol


def cell_detail(obs, viol, mode, arr):
    return {
        "mode": mode,
        "roots": arr,
        "argv": ["rustfmt"] + obs["argv"][1:],
        "cwd": "<case dir containing F/ and (when named) H/>",
        "expected": "exit 1, non-empty stderr, F/ byte- and mtime-identical, no new files; H/ formatted (writing modes) / whole",
        "rc": obs["rc"],
        "stderr": obs["stderr"].decode("utf-8", "replace")[:2000],
        "stdout": obs["stdout"].decode("utf-8", "replace")[:1000],
        "violations": [[w, d] for w, d in viol],
    }


def run_item(item):
    """One faulty tree under every emit mode and command line (18 runs, each on a fresh copy)."""
    shape_id, faults = item
    shape = SHAPE_BY_ID[shape_id]
    built = build_faulty_tree(shape, faults)
    if built is None:
        return None
    entries, extra, outside, needles = built
    is_global = any(f["kind"] in GLOBAL_FAULTS for f in faults)
    cells = []
    first_bad = None
    sample = None
    for mode, arr in CELLS:
        obs, viol = run_cell(entries, extra, outside, shape.root, mode, arr, is_global, needles)
        second = None
        if viol:
            # every violating run is repeated once before it is believed
            _obs2, viol2 = run_cell(entries, extra, outside, shape.root, mode, arr, is_global, needles)
            if [w for w, _ in viol2] != [w for w, _ in viol]:
                second = [w for w, _ in viol2]
            if first_bad is None:
                first_bad = cell_detail(obs, viol, mode, arr)
        elif sample is None and mode == "files" and arr == "F,H":
            sample = cell_detail(obs, viol, mode, arr)
        cells.append(
            {
                "mode": mode,
                "arr": arr,
                "rc": obs["rc"],
                "nontrivial": nontrivial(obs, needles),
                "whats": [w for w, _ in viol],
                "second": second,
            }
        )
    return {
        "shape": shape_id,
        "faults": faults,
        "cells": cells,
        "first_bad": first_bad,
        "sample": sample,
        "tree": {
            "shape": shape_id,
            "faults": faults,
            "global_fault": is_global,
            "faulty_tree_F": entries_json(entries),
            "healthy_tree_H": HEALTHY,
            "outside": {k: v.decode("latin-1") for k, v in outside.items()},
            "extra_argv": extra,
        },
    }


# --------------------------------------------------------------------------------------------- references


def split_stdout(out, paths):
    """`--emit stdout` prints `<path>:\n\n<text>` per file; -> {path: text} for the known paths."""
    marks = []
    for p in paths:
        h = (p + ":\n\n").encode()
        i = out.find(h)
        if i < 0 or out.find(h, i + 1) >= 0 or not (i == 0 or out[i - 1 : i] == b"\n"):
            return None
        marks.append((i, len(h), p))
    marks.sort()
    res = {}
    for n, (i, hl, p) in enumerate(marks):
        end = marks[n + 1][0] if n + 1 < len(marks) else len(out)
        res[p] = out[i + hl : end]
    if marks and marks[0][0] != 0:
        return None
    return res


def machinery(msg):
    print(f"machinery error: {msg}", file=sys.stderr)
    if SCRATCH is not None:
        SCRATCH.cleanup()
    sys.exit(2)


def reference(files, root_rel, tag, ambient=None):
    base = SCRATCH.fresh("ref-" + tag)
    materialise(base, {k: ["file", v.encode()] for k, v in list(files.items()) + list((ambient or {}).items())})
    argv = [RUSTFMT, "--color", "never", "--emit", "stdout", os.path.join(base, root_rel)]
    rc, out, err = common.run(argv, cwd=base, env=base_env())
    parts = split_stdout(out, [os.path.join(base, r) for r in files])
    if rc != 0 or err.strip() or parts is None:
        machinery(f"reference run for {tag} failed rc={rc} stderr={err[:300]!r} stdout={out[:300]!r}")
    ref = {}
    for r, t in files.items():
        ref[r] = parts[os.path.join(base, r)]
        if ref[r] == t.encode():
            machinery(f"{tag}/{r} is already formatted; writes would be invisible")
    # the files mode, run alone, writes exactly the reference (so "formatted" is observable on disk)
    rc, out, err = common.run([RUSTFMT, "--color", "never", os.path.join(base, root_rel)], cwd=base, env=base_env())
    for r in files:
        if rc != 0 or _read(os.path.join(base, r)) != ref[r]:
            machinery(f"healthy tree {tag}: files mode does not reproduce the stdout reference for {r}")
    shutil.rmtree(base, ignore_errors=True)
    return ref


# --------------------------------------------------------------------------------------------- main


def enumerate_items(thorough):
    singles, pairs = [], []
    for shape in SHAPES:
        fs = single_faults(shape, thorough)
        for f in fs:
            singles.append((shape.id, [f]))
        if thorough:
            for i, f1 in enumerate(fs):
                for f2 in fs[i + 1 :]:
                    if is_config(f1) and is_config(f2):
                        continue
                    if f1["at"] is not None and f1["at"] == f2["at"]:
                        continue  # pairs of faults live in DIFFERENT files
                    pairs.append((shape.id, [f1, f2]))
    return singles, pairs


def role(shape_id, f):
    if f["at"] is None:
        return f["kind"]
    return f["kind"] + ("@root" if f["at"] == SHAPE_BY_ID[shape_id].root else "@module")


def main():
    global SCRATCH
    if len(sys.argv) >= 3 and sys.argv[1] == "--replay":
        replay(sys.argv[2])
        return
    require_bins(RUSTFMT)
    run = Run(PROP, "fault_enumeration", RULE, ASSUMPTIONS)
    with Scratch("c05") as sc:
        SCRATCH = sc
        REF["H"] = reference(HEALTHY, "lib.rs", "H")
        for s in SHAPES:
            REF[s.id] = reference(s.files, s.root, s.id, s.ambient)
        singles, pairs = enumerate_items(run.thorough)
        budget = float(os.environ.get("C05_BUDGET_S", "1080" if run.thorough else "55"))
        order = singles + pairs
        trees = []
        skipped_incompatible = 0
        done_items = 0
        chunk = 256
        for i in range(0, len(order), chunk):
            if time.time() - run.start > budget:
                run.exhaustive = False
                run.extra["stopped_after_fault_trees"] = done_items
                run.extra["fault_trees_total"] = len(order)
                break
            part = pmap(run_item, order[i : i + chunk])
            for r in part:
                done_items += 1
                if r is None:
                    skipped_incompatible += 1
                else:
                    trees.append(r)
        pool_close()
        run.count("fault_trees_singles", len(singles))
        run.count("fault_trees_pairs", len(pairs))
        run.count("fault_trees_pairs_not_combinable", skipped_incompatible)
        run.count("fault_trees_run", len(trees))

        per_kind = {}
        viol_cells = {}  # tree id -> {(mode, arr, what)}
        by_id = {}
        for t in trees:
            tid = tree_id(t["shape"], t["faults"])
            by_id[tid] = t
            vc = viol_cells.setdefault(tid, set())
            if t["sample"] and len(t["faults"]) == 1:
                # one written-out passing case per fault kind family, simplest first
                fam = t["faults"][0]["kind"].split("-")[0]
                if fam not in run.extra.setdefault("_fam", set()):
                    run.extra["_fam"].add(fam)
                    run.sample({"case": cell_id(t["shape"], t["faults"], "files", "F,H"), **t["tree"], **t["sample"]}, limit=8)
            for c in t["cells"]:
                cid = cell_id(t["shape"], t["faults"], c["mode"], c["arr"])
                run.evaluated()
                run.count("runs_mode_" + c["mode"])
                if c["nontrivial"]:
                    run.nontrivial_case(cid)
                else:
                    run.count("runs_fault_not_hit_or_diagnostic_does_not_name_it")
                if c["rc"] == 0:
                    run.count("runs_exit_0")
                for f in t["faults"]:
                    pk = per_kind.setdefault(f["kind"], [0, 0])
                    pk[0] += 1
                    pk[1] += 1 if c["nontrivial"] else 0
                if c["second"] is not None:
                    run.violation(cid, "nondeterministic", {**t["tree"], "mode": c["mode"], "roots": c["arr"], "first": c["whats"], "second": c["second"]})
                    continue
                for w in c["whats"]:
                    run.count("violating_runs")
                    vc.add((c["mode"], c["arr"], w))
        run.extra.pop("_fam", None)
        run.extra["per_fault_kind"] = {k: {"runs": v[0], "fault_hit": v[1]} for k, v in sorted(per_kind.items())}
        dead = [k for k, v in per_kind.items() if v[1] == 0]
        if dead:
            run.extra["fault_kinds_never_hit"] = dead
            print(f"[C05] fault kinds never hit: {dead}", file=sys.stderr)

        # reduction 1: a violating cell of a two-fault tree is folded into the single-fault tree obtained by
        # dropping one of the faults when that tree violates the same way in the same cell
        # reduction 2: per tree and `what`, the violating cells form a signature; trees with the same fault
        # kinds at the same kind of position (root / module) and the same (what, signature) form one group,
        # reported at its first (= smallest) tree
        groups = {}
        for t in trees:
            tid = tree_id(t["shape"], t["faults"])
            vc = set(viol_cells[tid])
            if len(t["faults"]) == 2:
                for f in t["faults"]:
                    sub = viol_cells.get(tree_id(t["shape"], [f]), set())
                    folded = vc & sub
                    if folded:
                        run.count("violating_pair_runs_folded_into_single_fault_tree", len(folded))
                        vc -= folded
            whats = sorted({w for _, _, w in vc})
            for w in whats:
                sig = signature((m, a) for m, a, ww in vc if ww == w)
                key = (tuple(sorted(role(t["shape"], f) for f in t["faults"])), w, sig)
                groups.setdefault(key, []).append(t)
        witnesses = []
        for (roles, w, sig), members in groups.items():  # insertion order = enumeration order
            t = members[0]
            tid = tree_id(t["shape"], t["faults"])
            what = f"{w} [{sig}]"
            cells_of_w = [(m, a) for m, a in CELLS if (m, a, w) in viol_cells[tid]]
            first = t["first_bad"]
            detail = dict(t["tree"])
            detail["what"] = w
            detail["violating_cells"] = [{"mode": m, "roots": a} for m, a in cells_of_w]
            detail["all_cells"] = [{"mode": c["mode"], "roots": c["arr"], "rc": c["rc"], "violations": c["whats"]} for c in t["cells"]]
            detail["first_violating_run_of_this_tree"] = first
            detail["trees_in_group"] = len(members)
            detail["other_trees_in_group"] = [tree_id(m["shape"], m["faults"]) for m in members[1:12]]
            witnesses.append({"case": tid, "what": what, "fault_roles": list(roles), "trees_in_group": len(members)})
            run.violation(tid, what, detail)
        run.extra["witnesses"] = witnesses
        run.extra["space"] = {
            "shapes": {s.id: list(s.files) for s in SHAPES},
            "positions": "every file of the shape",
            "content_faults": list(CONTENT_FAULTS) + (list(CONTENT_FAULTS_EXTRA) if run.thorough else []),
            "module_path_faults": MODULE_FAULTS,
            "root_path_faults": ROOT_PATH_FAULTS,
            "config_faults": list(CONFIG_FAULTS) + (list(CONFIG_FAULTS_EXTRA) if run.thorough else []),
            "modes": [m for m, _ in MODES],
            "command_lines": ARRANGEMENTS,
            "faults_per_tree": "1" if not run.thorough else "1, and every pair of faults in different files",
        }
        run.finish()


def replay(path):
    global SCRATCH
    require_bins(RUSTFMT)
    j = json.load(open(path))
    d = j["detail"]
    print(f"case: {j['case']}\nrecorded violation: {j['what']}")
    bad = False
    with Scratch("c05-replay") as sc:
        SCRATCH = sc
        REF["H"] = reference(HEALTHY, "lib.rs", "H")
        entries = entries_from_json(d["faulty_tree_F"])
        outside = {k: v.encode("latin-1") for k, v in d.get("outside", {}).items()}
        print("--- tree F (faulty crate; every file is valid but unformatted except for the fault):")
        for rel, e in sorted(entries.items()):
            print(f"  F/{rel}: {e[0]}" + (f" {e[1]!r}" if e[0] != "dir" else ""))
        print("--- tree H (healthy crate, used when the command line names it):")
        for rel, t in HEALTHY.items():
            print(f"  H/{rel}: {t!r}   formatted reference: {REF['H'][rel]!r}")
        for rel, b in outside.items():
            print(f"  {rel}: {b!r}")
        shape = SHAPE_BY_ID[d["shape"]]
        if "mode" in d and "violating_cells" not in d:  # a nondeterministic cell
            todo = [(d["mode"], d["roots"])]
        else:
            todo = [(c["mode"], c["roots"]) for c in d["violating_cells"]]
        for n, (mode, arr) in enumerate(todo):
            obs, viol = run_cell(entries, d["extra_argv"], outside, shape.root, mode, arr, d.get("global_fault", False), [], base=sc.path("case"))
            print(f"=== run {n + 1}/{len(todo)}: cwd=<case dir>  " + " ".join(["rustfmt"] + obs["argv"][1:]))
            exp_h = "" if "H" not in arr else (", H formatted" if mode in WRITING and not d.get("global_fault") else ", H whole")
            print(f"  expected: exit 1, diagnostic on stderr, F unchanged{exp_h}")
            print(f"  exit status: {obs['rc']}")
            if n == 0:
                print("  stderr:\n    " + obs["stderr"].decode("utf-8", "replace").rstrip().replace("\n", "\n    "))
                print("  stdout:\n    " + obs["stdout"].decode("utf-8", "replace")[:1500].rstrip().replace("\n", "\n    "))
            for rel in sorted(set(obs["before"]) | set(obs["after"])):
                b, a = obs["before"].get(rel), obs["after"].get(rel)
                state = "unchanged" if a == b else ("APPEARED" if b is None else "DISAPPEARED" if a is None else "CHANGED" if a[0] != b[0] else "TOUCHED (mtime)")
                now = f"  now={_read(os.path.join(obs['base'], rel))!r}" if state in ("CHANGED", "APPEARED") else ""
                print(f"  {rel}: {state}{now}")
            print("  oracle:", "holds" if not viol else "VIOLATED " + "; ".join(f"{w}: {dd}" for w, dd in viol))
            bad = bad or bool(viol)
    sys.exit(1 if bad else 0)


if __name__ == "__main__":
    try:
        main()
    except SystemExit:
        raise
    except BaseException:  # a crash of the driver is a machinery failure, never a verdict
        import traceback

        traceback.print_exc()
        pool_close()
        if SCRATCH is not None:
            SCRATCH.cleanup()
        sys.exit(2)
