"""Shared machinery of the CLI-level drivers (C05 C06 C13 C14 C15 C18 C19 C20).

Every driver
  * runs the real binaries built from /repo's working tree with the
    `verif-hooks` feature (built by ./check before the driver starts),
  * owns the environment of every subprocess (env -i style),
  * enumerates its space completely and deterministically,
  * reports through `Run`: violations (with replay files), known findings,
    evidence JSON, exit status 0 / 1 / 2.
"""

import hashlib
import json
import os
import shutil
import subprocess
import sys
import tempfile
import time

VERIF = "/verif"
REPO = "/repo"
BIN_DIR = os.path.join(VERIF, ".build", "subject", "debug")
# Developer use only (evaluating a seeded change without touching /repo): binaries of a scratch build.
# Registered checks never set it; a run with it set says so and its evidence must not be kept.
if os.environ.get("VERIF_DEV_SUBJECT_BIN_DIR"):
    BIN_DIR = os.environ["VERIF_DEV_SUBJECT_BIN_DIR"]
    print(f"WARNING: subject binaries overridden: {BIN_DIR}", file=sys.stderr)
RUSTFMT = os.path.join(BIN_DIR, "rustfmt")
CARGO_FMT = os.path.join(BIN_DIR, "cargo-fmt")
FORMAT_DIFF = os.path.join(BIN_DIR, "rustfmt-format-diff")
VH = os.path.join(VERIF, ".build", "harness", "debug", "vh")


def sysroot_lib():
    p = os.environ.get("VERIF_SYSROOT_LIB")
    if p:
        return p
    out = subprocess.run(
        ["rustc", "--print", "sysroot"], cwd=REPO, capture_output=True, text=True
    ).stdout.strip()
    return os.path.join(out, "lib")


_SYSROOT_LIB = None


def base_env(home=None, extra=None):
    """The complete environment of a subject process: nothing is inherited."""
    global _SYSROOT_LIB
    if _SYSROOT_LIB is None:
        _SYSROOT_LIB = sysroot_lib()
    env = {
        "PATH": "/usr/local/bin:/usr/bin:/bin",
        "LD_LIBRARY_PATH": _SYSROOT_LIB,
        "TERM": "dumb",
        "NO_COLOR": "1",
        "LC_ALL": "C",
        "HOME": home or "/nonexistent-home",
        "XDG_CONFIG_HOME": (home or "/nonexistent-home") + "/.config",
    }
    if extra:
        env.update(extra)
    return env


class Scratch:
    """A scratch directory (tmpfs when available) removed on exit."""

    def __init__(self, tag):
        base = "/dev/shm" if os.path.isdir("/dev/shm") and os.access("/dev/shm", os.W_OK) else None
        self.root = tempfile.mkdtemp(prefix=f"verif-{tag}-", dir=base)
        # refuse to run in a polluted environment: an ancestor with a config file
        d = self.root
        while True:
            for n in ("rustfmt.toml", ".rustfmt.toml"):
                if os.path.exists(os.path.join(d, n)):
                    print(f"machinery error: {d}/{n} exists above the scratch root", file=sys.stderr)
                    sys.exit(2)
            nd = os.path.dirname(d)
            if nd == d:
                break
            d = nd

    def path(self, *parts):
        return os.path.join(self.root, *parts)

    def fresh(self, name):
        p = self.path(name)
        if os.path.exists(p):
            shutil.rmtree(p)
        os.makedirs(p)
        return p

    def cleanup(self):
        shutil.rmtree(self.root, ignore_errors=True)

    def __enter__(self):
        return self

    def __exit__(self, *a):
        self.cleanup()


def write_tree(root, files):
    """files: {relative path: bytes|str}. Creates directories as needed."""
    for rel, content in files.items():
        p = os.path.join(root, rel)
        os.makedirs(os.path.dirname(p), exist_ok=True)
        if isinstance(content, str):
            content = content.encode()
        with open(p, "wb") as f:
            f.write(content)


FIXED_MTIME = 1_000_000_000  # 2001-09-09; every file is set to it before an operation


def snapshot(root):
    """{relative path: (sha256, mtime_ns)} of every regular file / symlink under root."""
    out = {}
    for d, _dirs, fs in os.walk(root):
        for f in fs:
            p = os.path.join(d, f)
            rel = os.path.relpath(p, root)
            try:
                if os.path.islink(p):
                    out[rel] = ("link:" + os.readlink(p), 0)
                else:
                    with open(p, "rb") as fh:
                        h = hashlib.sha256(fh.read()).hexdigest()
                    out[rel] = (h, os.stat(p).st_mtime_ns)
            except OSError as e:
                out[rel] = ("unreadable:" + str(e.errno), 0)
    return out


def set_mtimes(root, t=FIXED_MTIME):
    for d, _dirs, fs in os.walk(root):
        for f in fs:
            p = os.path.join(d, f)
            if not os.path.islink(p):
                os.utime(p, (t, t))


def read(p):
    with open(p, "rb") as f:
        return f.read()


def run(argv, cwd=None, env=None, stdin=None, timeout=120):
    """Run a subject process; returns (rc, stdout bytes, stderr bytes). rc<0 = signal."""
    if isinstance(stdin, str):
        stdin = stdin.encode()
    try:
        p = subprocess.run(
            argv,
            cwd=cwd,
            env=env if env is not None else base_env(),
            input=stdin if stdin is not None else b"",
            capture_output=True,
            timeout=timeout,
        )
        return p.returncode, p.stdout, p.stderr
    except subprocess.TimeoutExpired as e:
        return -999, e.stdout or b"", e.stderr or b""


def sha(b):
    if isinstance(b, str):
        b = b.encode()
    return hashlib.sha256(b).hexdigest()[:16]


def abnormal(rc, stderr):
    """C16-style check usable by every driver: signal, panic, ICE."""
    s = stderr.decode("utf-8", "replace")
    return rc < 0 or rc not in (0, 1) and rc != 2 or "panicked" in s or "internal compiler error" in s


class Run:
    """Verdict bookkeeping shared by the drivers."""

    def __init__(self, prop, level, rule, assumptions=None):
        self.prop = prop
        self.level = level
        self.rule = rule
        self.assumptions = assumptions or []
        self.tier = os.environ.get("VERIF_TIER") or (sys.argv[1] if len(sys.argv) > 1 else "quick")
        if self.tier not in ("quick", "thorough"):
            self.tier = "quick"
        self.seed = int(os.environ.get("VERIF_SEED", "0") or 0)
        self.start = time.time()
        self.evaluations = 0
        self.nontrivial = set()
        self.samples = []
        self.counters = {}
        self.violations = []  # (case_id, what, detail dict)
        self.known_hits = []
        self.extra = {}
        self.exhaustive = True
        self.findings = self._load_findings()
        shutil.rmtree(os.path.join(VERIF, "replay", prop), ignore_errors=True)

    @property
    def thorough(self):
        return self.tier == "thorough"

    def _load_findings(self):
        out = []
        p = os.path.join(VERIF, "known_findings.jsonl")
        if os.path.exists(p):
            for line in open(p):
                line = line.strip()
                if not line or line.startswith("#") or line.startswith("fixed:"):
                    continue
                try:
                    f = json.loads(line)
                except ValueError as e:
                    print(f"known_findings: bad line: {e}", file=sys.stderr)
                    sys.exit(2)
                if f.get("property") == self.prop and f.get("status", "known") == "known":
                    out.append(f)
        return out

    def count(self, key, n=1):
        self.counters[key] = self.counters.get(key, 0) + n

    def evaluated(self, n=1):
        self.evaluations += n

    def nontrivial_case(self, case_id):
        self.nontrivial.add(case_id)

    def sample(self, obj, limit=6):
        if len(self.samples) < limit:
            self.samples.append(obj)

    def violation(self, case_id, what, detail):
        """case_id: stable string identifying the specific input/tree/history/fault."""
        for f in self.findings:
            if f.get("case") == case_id and f.get("what") == what:
                if (case_id, what) not in self.known_hits:
                    self.known_hits.append((case_id, what))
                    print(f"KNOWN-FINDING: property={self.prop} {what} [{f.get('class', '')}] case={case_id}")
                return
        self.violations.append((case_id, what, detail))
        d = os.path.join(VERIF, "replay", self.prop)
        os.makedirs(d, exist_ok=True)
        path = os.path.join(d, sha(case_id + "\0" + what) + ".json")
        with open(path, "w") as fh:
            json.dump({"property": self.prop, "case": case_id, "what": what, "detail": detail}, fh, indent=1, default=str)
        if len(self.violations) <= 40:
            print(f"VIOLATION property={self.prop} replay={path}")
            print(f"  what={what} case={case_id}")

    def finish(self, min_nontrivial=2):
        wall = time.time() - self.start
        coverage = {
            "evaluations": self.evaluations,
            "distinct_nontrivial": len(self.nontrivial),
            "rule": self.rule,
            "samples": self.samples,
            "exhaustive": self.exhaustive,
            "counters": self.counters,
            "known_findings_reproduced": len(self.known_hits),
        }
        coverage.update(self.extra)
        if self.level == "model_checking":
            coverage.setdefault("states", max(1, self.counters.get("states", len(self.nontrivial))))
            coverage.setdefault("transitions", max(1, self.counters.get("transitions", self.evaluations)))
            coverage.setdefault("traces_validated_against_impl", self.counters.get("traces", self.evaluations))
        ev = {
            "property_id": self.prop,
            "tier": self.tier,
            "seed": self.seed,
            "level": self.level,
            "coverage": coverage,
            "assumptions": self.assumptions,
            "wall_s": round(wall, 2),
            "violations": len(self.violations),
        }
        os.makedirs(os.path.join(VERIF, "evidence"), exist_ok=True)
        with open(os.path.join(VERIF, "evidence", self.prop + ".json"), "w") as fh:
            json.dump(ev, fh, indent=1, default=str)
        print(
            f"[{self.prop}] {self.tier}: evaluations={self.evaluations} nontrivial={len(self.nontrivial)} "
            f"violations={len(self.violations)} known={len(self.known_hits)} wall={wall:.1f}s",
            file=sys.stderr,
        )
        if len(self.violations) > 40:
            print(f"... and {len(self.violations) - 40} more violations (replay files written)")
        if self.violations:
            sys.exit(1)
        if len(self.nontrivial) < min_nontrivial:
            print(f"[{self.prop}] vacuous run: {len(self.nontrivial)} non-trivial cases", file=sys.stderr)
            sys.exit(2)
        sys.exit(0)


def require_bins(*bins):
    for b in bins:
        if not os.path.exists(b):
            print(f"machinery error: {b} not built (run ./check, not the driver directly)", file=sys.stderr)
            sys.exit(2)


def parallel_map(fn, items, jobs=None):
    """Deterministic-order parallel map over threads (subject runs are subprocesses)."""
    from concurrent.futures import ThreadPoolExecutor

    jobs = jobs or int(os.environ.get("VERIF_JOBS", "0") or 0) or (os.cpu_count() or 8)
    with ThreadPoolExecutor(max_workers=jobs) as ex:
        return list(ex.map(fn, items))
