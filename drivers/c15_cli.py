#!/usr/bin/env python3
"""C15 (CLI half) — output is a function of source and configuration only.

Enumerated on the real `rustfmt` binary: every ordered subset of size <= 3 (thorough 4/5) of a
5-file alphabet {formatted, unformatted, parse error, file with a local rustfmt.toml, file with
diagnostics} on ONE command line x emit modes {files, stdout, check, json, checkstyle}; the same
file as a path and on standard input; repeated runs, different cwd, unrelated environment
variables, different HOME contents.

Oracle: per-file bytes / report blocks equal the single-file invocation; exit status = max of the
single-file statuses; whole json / checkstyle documents are exactly the concatenation of the
per-file reports.

The in-process half (one Session, all input sequences) is harness/src/props/c15.rs; this driver
appends its counts to the evidence file written by that half.
"""
import itertools
import json
import os
import sys

sys.path.insert(0, os.path.dirname(os.path.abspath(__file__)))
import common
from common import RUSTFMT, Scratch, base_env, run, write_tree, read

FILES = {
    "rustfmt.toml": "tab_spaces = 3\n",
    "a.rs": "fn a() { if x { y(); } }\n",
    "b.rs": "fn  b ( ) { let  x=1 ; }\n",
    "c.rs": "fn c( { let x = ; }\n",
    "d/d.rs": "fn  d ( ) { if  a { b ( ) ; } }\n",
    "d/rustfmt.toml": 'tab_spaces = 2\nbrace_style = "AlwaysNextLine"\n',
    "e/e.rs": "fn  g ( ) { let a = " + "x" * 120 + "; }\n",
    "e/rustfmt.toml": "error_on_line_overflow = true\n",
    # a crate root whose module is another input: that file is reached twice in one invocation
    "m.rs": "mod a;\nfn  m ( ) { }\n",
}
INPUTS = ["a.rs", "b.rs", "c.rs", "d/d.rs", "e/e.rs", "m.rs"]
MODES = {
    "files": [],
    "stdout": ["--emit", "stdout"],
    "check": ["--check"],
    "json": ["--emit", "json"],
    "checkstyle": ["--emit", "checkstyle"],
}


def fresh(scratch, name):
    root = scratch.fresh(name)
    write_tree(root, FILES)
    return root


def invoke(root, mode, files, env=None, cwd=None, rel=False):
    argv = [RUSTFMT, "--color", "never"] + MODES[mode]
    argv += [(f if rel else os.path.join(root, f)) for f in files]
    rc, out, err = run(argv, cwd=cwd or root, env=env or base_env(home=os.path.join(root, "..", "home")))
    contents = {f: read(os.path.join(root, f)) for f in INPUTS}
    return rc, out, err, contents


def scrub(b, root):
    return b.replace(root.encode(), b"<ROOT>")


def expected_doc(mode, parts):
    """Combine the single-file outputs into what a multi-file invocation must print."""
    if mode in ("files", "stdout", "check"):
        return b"".join(parts)
    if mode == "json":
        arr = []
        for p in parts:
            arr.extend(json.loads(p.decode() or "[]"))
        return arr
    if mode == "checkstyle":
        head = b'<?xml version="1.0" encoding="utf-8"?>\n<checkstyle version="4.3">'
        tail = b"</checkstyle>\n"
        body = b""
        for p in parts:
            assert p.startswith(head) and p.endswith(tail), p
            body += p[len(head) : len(p) - len(tail)]
        return head + body + tail
    raise AssertionError(mode)


def main():
    if len(sys.argv) > 2 and sys.argv[1] == "--replay":
        rep = json.load(open(sys.argv[2]))
        d = rep["detail"]
        with Scratch("c15r") as sc:
            root = fresh(sc, "t")
            os.makedirs(os.path.join(root, "..", "home"), exist_ok=True)
            print("case:", rep["case"], "\nwhat:", rep["what"])
            rc, out, err, _ = invoke(root, d["mode"], d["files"])
            print("argv: rustfmt", " ".join(MODES[d["mode"]]), " ".join(d["files"]))
            print("exit:", rc)
            print("--- stdout ---\n" + scrub(out, root).decode("utf-8", "replace"))
            print("--- stderr ---\n" + scrub(err, root).decode("utf-8", "replace"))
            print("--- recorded ---\n" + json.dumps(d, indent=1)[:4000])
        return
    common.require_bins(RUSTFMT)
    r = common.Run(
        "C15",
        "model_checking",
        "CLI half: every ordered subset of size <= 3 (thorough: all sizes <= 5) of 6 input files {formatted, unformatted, "
        "parse error, local rustfmt.toml, diagnostics via local config, crate root whose module is another input} on one command line x {files, stdout, check, json, "
        "checkstyle}; each compared with the single-file invocations (bytes, report blocks, exit status = max); path vs "
        "stdin; 3 repetitions, cwd inside / outside the tree with relative and absolute paths, unrelated environment "
        "variables, different HOME contents. Non-trivial = >= 2 inputs of different kinds.",
        ["the environment of every run is fully controlled (env -i style)"],
    )
    maxk = 5 if r.thorough else 3
    with Scratch("c15") as sc:
        os.makedirs(sc.path("home"), exist_ok=True)
        # single-file references per mode
        single = {}
        for mode in MODES:
            for f in INPUTS:
                root = fresh(sc, "t")
                rc, out, err, contents = invoke(root, mode, [f])
                single[(mode, f)] = (rc, scrub(out, root), sorted(scrub(err, root).splitlines()), contents)
                r.evaluated()
        seqs = []
        for k in range(2, maxk + 1):
            seqs.extend(itertools.permutations(INPUTS, k))
        cases = [(mode, s) for mode in MODES for s in seqs]

        def one(case):
            mode, s = case
            root = sc.path("w-" + common.sha(repr(case)))
            if os.path.exists(root):
                import shutil

                shutil.rmtree(root)
            os.makedirs(root)
            write_tree(root, FILES)
            rc, out, err, contents = invoke(root, mode, list(s))
            res = (rc, scrub(out, root), sorted(scrub(err, root).splitlines()), contents)
            import shutil

            shutil.rmtree(root, ignore_errors=True)
            return res

        results = common.parallel_map(one, cases)
        for (mode, s), (rc, out, err, contents) in zip(cases, results):
            r.evaluated()
            r.count("transitions")
            r.count("traces")
            cid = f"mode[{mode}] files[{' '.join(s)}]"
            if len(set(s)) >= 2:
                r.nontrivial_case(cid)
            parts = [single[(mode, f)][1] for f in s]
            want_rc = max(single[(mode, f)][0] for f in s)
            detail = {"mode": mode, "files": list(s), "exit": rc, "expected_exit": want_rc}
            if rc != want_rc:
                r.violation(cid, "exit status is not the maximum of the single-file statuses", detail)
            try:
                want = expected_doc(mode, parts)
                got = json.loads(out.decode() or "[]") if mode == "json" else out
            except Exception as e:  # malformed document
                r.violation(cid, "report document is malformed", dict(detail, error=str(e), stdout=out.decode("utf-8", "replace")))
                continue
            if got != want:
                r.violation(
                    cid,
                    "output differs from the concatenation of the single-file outputs",
                    dict(detail, stdout=out.decode("utf-8", "replace"), expected=want.decode("utf-8", "replace") if isinstance(want, bytes) else want),
                )
            want_err = sorted(l for f in s for l in single[(mode, f)][2])
            if err != want_err:
                r.violation(
                    cid,
                    "diagnostics differ from the union of the single-file diagnostics",
                    dict(detail, stderr=[x.decode("utf-8", "replace") for x in err], expected=[x.decode("utf-8", "replace") for x in want_err]),
                )
            if mode == "files":
                for f in INPUTS:
                    # what the single-file run of some named input leaves in f (an input can be a module of another)
                    want_c = next((single[(mode, g)][3][f] for g in s if single[(mode, g)][3][f] != FILES[f].encode()), FILES[f].encode())
                    if contents[f] != want_c:
                        r.violation(cid, "file contents differ from the single-file run", dict(detail, file=f))
            r.sample({"case": cid, "exit": rc})

        # path vs stdin, repetitions, cwd, environment (single-file inputs: standard input has no modules)
        for f in [x for x in INPUTS if x != "m.rs"]:
            root = fresh(sc, "t")
            rc_p, out_p, _, _ = invoke(root, "stdout", [f])
            header = (os.path.join(root, f) + ":\n\n").encode()
            text_p = out_p[len(header) :] if out_p.startswith(header) else out_p
            cwd = os.path.dirname(os.path.join(root, f))
            rc_s, out_s, _ = run([RUSTFMT, "--color", "never"], cwd=cwd, env=base_env(home=sc.path("home")), stdin=FILES[f])
            r.evaluated(2)
            cid = f"path-vs-stdin[{f}]"
            r.nontrivial_case(cid)
            if rc_p == 0 and (rc_s != 0 or out_s != text_p):
                r.violation(cid, "standard input and path give different text", {"mode": "stdout", "files": [f], "stdin": out_s.decode("utf-8", "replace"), "path": text_p.decode("utf-8", "replace")})
            # repetitions and environment variations (stdout mode, absolute paths)
            variants = {
                "repeat-1": {},
                "repeat-2": {},
                "unrelated-env": {"FOO": "bar", "RUST_BACKTRACE": "1", "LANG": "de_DE.UTF-8", "COLUMNS": "40", "NO_COLOR": ""},
                "other-home": None,
            }
            for vname, extra in variants.items():
                home = sc.path("home")
                if extra is None:
                    home = sc.path("home2")
                    os.makedirs(os.path.join(home, "notes"), exist_ok=True)
                    write_tree(home, {"notes/readme.txt": "unrelated\n", "Cargo.toml": "[package]\nname='x'\n"})
                    extra = {}
                rc_v, out_v, _ = run([RUSTFMT, "--color", "never", "--emit", "stdout", os.path.join(root, f)], cwd=root, env=base_env(home=home, extra=extra))
                r.evaluated()
                if (rc_v, out_v) != (rc_p, out_p):
                    r.violation(f"variant[{vname}] file[{f}]", "output depends on the environment / repetition", {"mode": "stdout", "files": [f]})
            # cwd: relative path from inside the tree, absolute path from outside
            rc_r, out_r, _ = run([RUSTFMT, "--color", "never", "--emit", "stdout", os.path.basename(f)], cwd=cwd, env=base_env(home=sc.path("home")))
            rc_o, out_o, _ = run([RUSTFMT, "--color", "never", "--emit", "stdout", os.path.join(root, f)], cwd="/", env=base_env(home=sc.path("home")))
            r.evaluated(2)
            # the header names the canonical absolute path whatever spelling was given; a relative
            # spelling in the header is accepted as well (the property is about the text)
            text_r = out_r
            for h in (header, (os.path.basename(f) + ":\n\n").encode()):
                if out_r.startswith(h):
                    text_r = out_r[len(h) :]
                    break
            if (rc_r, text_r) != (rc_p, text_p) or (rc_o, out_o) != (rc_p, out_p):
                r.violation(f"cwd[{f}]", "output depends on the working directory", {"mode": "stdout", "files": [f]})

    # merge with the in-process half's evidence
    ev_path = os.path.join(common.VERIF, "evidence", "C15.json")
    inproc = None
    if os.path.exists(ev_path):
        try:
            inproc = json.load(open(ev_path))
        except ValueError:
            inproc = None
    if inproc and inproc.get("property_id") == "C15" and "cli" not in inproc.get("coverage", {}):
        cov = inproc["coverage"]
        r.extra["in_process_half"] = {k: cov.get(k) for k in ("states", "transitions", "traces_validated_against_impl", "distinct_nontrivial", "rule", "counters")}
        r.counters["states"] = int(cov.get("states", 0)) + len(INPUTS)
        r.counters["transitions"] = r.counters.get("transitions", 0) + int(cov.get("transitions", 0))
        r.counters["traces"] = r.counters.get("traces", 0) + int(cov.get("traces_validated_against_impl", 0))
        r.samples = (cov.get("samples") or [])[:3] + r.samples[:3]
        r.evaluations += int(cov.get("transitions", 0))
        for i in range(int(cov.get("distinct_nontrivial", 0))):
            r.nontrivial.add(f"inproc-{i}")
        r.start -= float(inproc.get("wall_s", 0))
    r.extra["cli"] = True
    r.finish()


if __name__ == "__main__":
    main()
