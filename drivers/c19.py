#!/usr/bin/env python3
"""C19 -- rustfmt-format-diff turns a patch into exactly the lines it added.

Space (bounded, exhaustive, simplest first; see `enumerate_diffcases`):

  tree pair   2-3 files out of x.rs, y.rs, a/b/c.rs, a/b/d.rs, src/m.txt; every
              version is a list of <= 5 lines over the 4-line alphabet
                  P = `fn f() { a +7 }`     Q = `let x = 1;`
                  H = `++ z/q.rs`           A = `@@ -1 +1 @@`
              (H, once added, is rendered `+++ z/q.rs` = looks like a file
              header; A looks like a hunk header; P is an ordinary unformatted
              Rust line that git may print as the hunk's section heading),
              related by one or two edits {insert / delete / replace at first,
              middle, last line}, or by file deletion / creation / rename, or by
              a change of the final newline;
  diff        real `diff -U{0,1,2,3} -r -N a b` and real
              `git diff --no-index --no-prefix -U{0,1,2,3} a b` (a/ b/ prefixes);
  -p          0..3, never above the deepest post-image path; a value that is
              above the depth of *some* file of the diff puts the run into the
              separate class "overstrip" with a weaker oracle (see below);
  filter      none (default), `.*\\.rs`, `src/.*`, three patterns that are only
              right when matched against the whole path, an invalid regex;
  RUSTFMT     a recording stand-in exiting 0, or (default filter only) 1.

Oracle.  The diff text is parsed *structurally*: the driver knows which files
differ, so a section starts at the exact line `diff ... a/<name> b/<name>` for a
known name, the two/extended header lines follow, and every hunk body is
consumed by the old/new line counts of its header -- a body line is therefore
never looked at as a possible header.  Each parsed hunk is then verified against
the two versions (pre-image slice, post-image slice, equal gaps), so the ranges
are known to be genuine.  Expected result for (-p, filter): for every file with
a post-image whose stripped path fully matches the filter, the multiset of
[start, start+count-1] of its hunks with count > 0.  Observed: argv of the
stand-in (`<files...> --file-lines <JSON>`).

Tree pairs of a tier = (1) every entry of a per-file catalogue (base lists x one or two edits, see
`file_changes`) on x.rs next to an unchanged src/m.txt, and a stated part of it on a/b/c.rs and
src/m.txt; (2) deletion / creation of each of the three files and renames x.rs->y.rs,
a/b/c.rs->a/b/d.rs, src/m.txt->x.rs with and without an edit; (3) all products of a 6-entry
(thorough: 9-entry) per-file catalogue `SMALL` over the pairs and the triple of names.  The thorough
space contains the quick space.

Violations are reduced (drop files, lower -p, earlier filter, GNU style, earlier file name, simpler
lines, fewer lines, fewer context lines -- each step re-run against the real binaries and kept only
if the same kind of violation remains) and reported under the identity of the reduced witness; the
runs that reduce to it are counted in the replay file.  A new defect shows up as a new witness.
"""

import json
import os
import re
import shutil
import sys
import threading
import time

sys.path.insert(0, os.path.dirname(os.path.abspath(__file__)))
import common  # noqa: E402
from common import FORMAT_DIFF, Run, Scratch, base_env, require_bins  # noqa: E402

PROP = "C19"

# Testing aid (mutation checks of the driver itself): run another build of the tool.  Never set by ./check.
if os.environ.get("VERIF_C19_SUBJECT"):
    FORMAT_DIFF = os.environ["VERIF_C19_SUBJECT"]
    print(f"[C19] WARNING: subject overridden: {FORMAT_DIFF}", file=sys.stderr)

# --------------------------------------------------------------------------- alphabet

LETTERS = {
    "P": "fn f() { a +7 }",
    "Q": "let x = 1;",
    "H": "++ z/q.rs",
    "A": "@@ -1 +1 @@",
}
LINE2LETTER = {v: k for k, v in LETTERS.items()}

FILTERS = [
    # (name, -f argument or None, valid)
    ("default", None, True),
    ("rs", r".*\.rs", True),
    ("src", r"src/.*", True),
    ("whole-suffix", r"[a-z]\.rs", True),  # a search would accept b/x.rs
    ("whole-prefix", r"[a-z/]+\.(r|txt)", True),  # a prefix match would accept b/x.rs
    ("whole-alt", r"x\.rs|m\.txt", True),  # ^x\.rs|m\.txt$ would accept src/m.txt
    ("invalid", r"(", False),
]
FILTER_BY_NAME = {f[0]: f for f in FILTERS}
DEFAULT_PATTERN = r".*\.rs"  # documented default (--help)

STYLES = ("gnu", "git")


class Machinery(Exception):
    pass


# --------------------------------------------------------------------------- cases
#
# version  = None (file absent) | {"l": "PQQ", "nl": True}   (letters; nl = final newline present)
# file     = {"name": ..., "old": version, "new": version}
# diffcase = {"style": "gnu"|"git", "U": 0..3, "files": [file...]}
# case     = diffcase + {"p": int, "f": filter name, "x": stand-in exit status}


def V(letters, nl=True):
    return {"l": letters, "nl": nl}


def vrepr(v):
    if v is None:
        return "~"
    s = v["l"] or "0"
    return s + ("" if v["nl"] or not v["l"] else "!")


def vbytes(v):
    if v is None or not v["l"]:
        return b""
    s = "\n".join(LETTERS[c] for c in v["l"])
    return (s + ("\n" if v["nl"] else "")).encode()


def vlines(v):
    """[(text, has_newline)]"""
    if v is None or not v["l"]:
        return []
    out = [(LETTERS[c], True) for c in v["l"]]
    if not v["nl"]:
        out[-1] = (out[-1][0], False)
    return out


def tree_repr(files):
    return ";".join(f"{f['name']}:{vrepr(f['old'])}>{vrepr(f['new'])}" for f in files)


def diffcase_id(dc):
    return f"{dc['style']}|U{dc['U']}|{tree_repr(dc['files'])}"


def case_id(c):
    return f"{c['style']}|U{c['U']}|p{c['p']}|f={c['f']}|x{c['x']}|{tree_repr(c['files'])}"


def size_key(dc):
    files = dc["files"]
    changed = [f for f in files if vbytes(f["old"]) != vbytes(f["new"]) or (f["old"] is None) != (f["new"] is None)]
    tot = sum(len((f["old"] or {"l": ""})["l"]) + len((f["new"] or {"l": ""})["l"]) for f in files)
    return (len(changed), len(files), tot, STYLES.index(dc["style"]), dc["U"], tree_repr(files))


# --------------------------------------------------------------------------- running the real tools


def pmap(fn, items, chunk=4):
    """Deterministic-order parallel map over forked worker PROCESSES (common.parallel_map uses
    threads; with ~10^5 subprocess launches the interpreter lock becomes the bottleneck)."""
    import multiprocessing

    items = list(items)
    if not items:
        return []
    jobs = int(os.environ.get("VERIF_JOBS", "0") or 0) or (os.cpu_count() or 8)
    if jobs <= 1:
        return [fn(x) for x in items]
    ctx = multiprocessing.get_context("fork")
    with ctx.Pool(jobs) as pool:
        return pool.map(fn, items, chunksize=chunk)


_TLS = threading.local()
_SCRATCH = None
_COUNTER = [0]
_COUNTER_LOCK = threading.Lock()
STANDIN = None


def setup_scratch():
    global _SCRATCH, STANDIN
    _SCRATCH = Scratch("c19")
    STANDIN = _SCRATCH.path("rustfmt-standin.sh")
    with open(STANDIN, "w") as fh:
        # one record per invocation: argc, then every argument, each NUL terminated
        # C19_EXIT: an exit code, or K<signal number> = die from that signal instead of exiting
        fh.write('#!/bin/sh\nprintf \'%s\\0\' "$#" "$@" >> "$C19_LOG"\ncase "${C19_EXIT:-0}" in K*) kill -s "${C19_EXIT#K}" $$; sleep 5;; esac\nexit "${C19_EXIT:-0}"\n')
    os.chmod(STANDIN, 0o755)
    return _SCRATCH


def workdir():
    d = getattr(_TLS, "dir", None)
    if d is None:
        with _COUNTER_LOCK:
            _COUNTER[0] += 1
            n = _COUNTER[0]
        d = _SCRATCH.fresh(f"w{os.getpid()}-{n}")
        _TLS.dir = d
    return d


_GIT_ENV = {"GIT_CONFIG_NOSYSTEM": "1", "GIT_CONFIG_GLOBAL": "/dev/null", "GIT_PAGER": "cat"}


def make_diff(dc):
    """Write both trees and run the real diff tool; returns the diff text (str)."""
    d = workdir()
    for side in ("a", "b"):
        shutil.rmtree(os.path.join(d, side), ignore_errors=True)
        os.makedirs(os.path.join(d, side))
    for f in dc["files"]:
        for side, v in (("a", f["old"]), ("b", f["new"])):
            if v is not None:
                common.write_tree(os.path.join(d, side), {f["name"]: vbytes(v)})
    common.set_mtimes(d)
    u = dc["U"]
    if dc["style"] == "gnu":
        argv = ["diff", f"-U{u}", "-r", "-N", "a", "b"]
        env = base_env()
    else:
        argv = ["git", "diff", "--no-index", "--no-prefix", "--no-color", "--no-ext-diff", f"-U{u}", "a", "b"]
        env = base_env(extra=_GIT_ENV)
    rc, out, err = common.run(argv, cwd=d, env=env)
    if rc not in (0, 1) or err:
        raise Machinery(f"{argv} failed rc={rc}: {err.decode('utf-8', 'replace')}")
    return out.decode("ascii")


_ENV_CACHE = {}


def run_tool(diff_text, p, filt_arg, exit_status):
    """Feed the diff to the real rustfmt-format-diff; returns (rc, stdout, stderr, records, argv).
    stdin / stdout / stderr are plain files so that no pipe juggling is needed per run."""
    d = workdir()
    log = os.path.join(d, "argv.log")
    fin, fout, ferr = (os.path.join(d, n) for n in ("stdin.diff", "stdout.txt", "stderr.txt"))
    if os.path.exists(log):
        os.unlink(log)
    if getattr(_TLS, "stdin_text", None) != diff_text:
        with open(fin, "w") as fh:
            fh.write(diff_text)
        _TLS.stdin_text = diff_text
    argv = [FORMAT_DIFF, "-p", str(p)]
    if filt_arg is not None:
        argv += ["-f", filt_arg]
    key = (log, exit_status)
    env = _ENV_CACHE.get(key)
    if env is None:
        env = _ENV_CACHE[key] = base_env(extra={"RUSTFMT": STANDIN, "C19_LOG": log, "C19_EXIT": str(exit_status)})
    i = os.open(fin, os.O_RDONLY)
    o = os.open(fout, os.O_WRONLY | os.O_CREAT | os.O_TRUNC)
    e = os.open(ferr, os.O_WRONLY | os.O_CREAT | os.O_TRUNC)
    cwd = os.getcwd()
    try:
        os.chdir(d)
        pid = os.posix_spawn(
            FORMAT_DIFF,
            argv,
            env,
            file_actions=[(os.POSIX_SPAWN_DUP2, i, 0), (os.POSIX_SPAWN_DUP2, o, 1), (os.POSIX_SPAWN_DUP2, e, 2)],
        )
    finally:
        os.chdir(cwd)
        for fd in (i, o, e):
            os.close(fd)
    _pid, status = os.waitpid(pid, 0)
    rc = os.waitstatus_to_exitcode(status)
    out = common.read(fout)
    err = common.read(ferr)
    records = []
    if os.path.exists(log):
        parts = common.read(log).split(b"\0")
        if parts[-1] != b"":
            raise Machinery("stand-in log is truncated")
        parts = parts[:-1]
        k = 0
        while k < len(parts):
            n = int(parts[k])
            records.append([a.decode("utf-8", "replace") for a in parts[k + 1 : k + 1 + n]])
            k += 1 + n
        if k != len(parts):
            raise Machinery("stand-in log is malformed")
    return rc, out.decode("utf-8", "replace"), err.decode("utf-8", "replace"), records, argv


# --------------------------------------------------------------------------- oracle: structural parse

HUNK_RE = re.compile(r"^@@ -(\d+)(?:,(\d+))? \+(\d+)(?:,(\d+))? @@(?: (.*))?$")
GIT_EXT = (
    "index ",
    "similarity index ",
    "dissimilarity index ",
    "rename from ",
    "rename to ",
    "new file mode ",
    "deleted file mode ",
    "old mode ",
    "new mode ",
)


def parse_and_verify(dc, text):
    """Returns one dict per file section of the diff: {"old_name", "name" (post-image file),
    "has_post" (the file exists in the new tree), "plus_path" (path in the +++ header or None),
    "hunks": [{"start", "count", "count_missing", "heading"}]}.
    Raises Machinery when the diff is not what the two trees say."""
    files = {f["name"]: f for f in dc["files"]}
    style, u = dc["style"], dc["U"]
    starts = {}
    if style == "gnu":
        for n in files:
            starts[f"diff -U{u} -r -N a/{n} b/{n}"] = (n, n)
    else:
        for n1 in files:
            for n2 in files:
                starts[f"diff --git a/{n1} b/{n2}"] = (n1, n2)
            starts[f"diff --git a/{n1} a/{n1}"] = (n1, n1)  # deleted file
            starts[f"diff --git b/{n1} b/{n1}"] = (n1, n1)  # created file
    if not text:
        lines = []
    else:
        if not text.endswith("\n"):
            raise Machinery("diff output does not end with a newline")
        lines = text[:-1].split("\n")
    i = 0
    sections = []
    seen_new = set()
    while i < len(lines):
        if lines[i] not in starts:
            raise Machinery(f"unexpected line where a section must start: {lines[i]!r}")
        n1, n2 = starts[lines[i]]
        i += 1
        if style == "git":
            while i < len(lines) and lines[i].startswith(GIT_EXT):
                i += 1
        old_v, new_v = files[n1]["old"], files[n2]["new"]
        if n2 in seen_new:
            raise Machinery(f"{n2} appears twice as a post-image")
        seen_new.add(n2)
        sec = {"old_name": n1, "name": n2, "hunks": [], "has_post": new_v is not None, "plus_path": None}
        sections.append(sec)
        if i >= len(lines) or lines[i] in starts:
            if style == "gnu":
                raise Machinery("GNU section without headers")
            # git: rename without change / empty file: no ---/+++ and no hunks
            if n1 == n2 and vbytes(old_v) != vbytes(new_v):
                raise Machinery("git section without hunks for differing contents")
            continue
        if not lines[i].startswith("--- "):
            raise Machinery(f"expected --- header, got {lines[i]!r}")
        plus = lines[i + 1]
        if style == "gnu":
            if not plus.startswith(f"+++ b/{n2}\t"):
                raise Machinery(f"unexpected +++ header {plus!r}")
            sec["plus_path"] = f"b/{n2}"
        else:
            want = f"+++ b/{n2}" if new_v is not None else "+++ /dev/null"
            if plus != want:
                raise Machinery(f"unexpected +++ header {plus!r}, wanted {want!r}")
            sec["plus_path"] = plus[4:]
        i += 2
        old_l, new_l = vlines(old_v), vlines(new_v)
        po = pn = 0  # consumed so far (0-based exclusive end)
        while i < len(lines) and lines[i] not in starts:
            m = HUNK_RE.match(lines[i])
            if not m:
                raise Machinery(f"expected hunk header, got {lines[i]!r}")
            os_, oc, ns, nc = int(m.group(1)), m.group(2), int(m.group(3)), m.group(4)
            oc = 1 if oc is None else int(oc)
            nc_missing = nc is None
            nc = 1 if nc is None else int(nc)
            i += 1
            pre, post = [], []
            o = n = 0
            last = ()
            while o < oc or n < nc:
                if i >= len(lines):
                    raise Machinery("hunk body truncated")
                ln = lines[i]
                c = ln[:1]
                if c == " ":
                    pre.append([ln[1:], True])
                    post.append([ln[1:], True])
                    last = (pre[-1], post[-1])
                    o += 1
                    n += 1
                elif c == "-":
                    pre.append([ln[1:], True])
                    last = (pre[-1],)
                    o += 1
                elif c == "+":
                    post.append([ln[1:], True])
                    last = (post[-1],)
                    n += 1
                elif c == "\\":
                    for x in last:
                        x[1] = False
                else:
                    raise Machinery(f"bad hunk body line {ln!r}")
                i += 1
            while i < len(lines) and lines[i].startswith("\\"):
                for x in last:
                    x[1] = False
                i += 1
            if o != oc or n != nc:
                raise Machinery("hunk counts overrun")
            o0 = os_ - 1 if oc > 0 else os_
            n0 = ns - 1 if nc > 0 else ns
            pre = [tuple(x) for x in pre]
            post = [tuple(x) for x in post]
            if old_l[o0 : o0 + oc] != pre or new_l[n0 : n0 + nc] != post:
                raise Machinery(f"hunk {m.group(0)!r} does not describe the trees")
            if o0 < po or n0 < pn or old_l[po:o0] != new_l[pn:n0]:
                raise Machinery("gap between hunks is not common text")
            po, pn = o0 + oc, n0 + nc
            sec["hunks"].append({"start": ns, "count": nc, "count_missing": nc_missing, "heading": m.group(5) or ""})
        if old_l[po:] != new_l[pn:]:
            raise Machinery("tail after last hunk is not common text")
    # completeness: every file with a changed / new post-image is the post-image of one section
    for n, f in files.items():
        if f["new"] is not None and (f["old"] is None or vbytes(f["old"]) != vbytes(f["new"])):
            if n not in seen_new:
                if style == "gnu" and f["old"] is None and not vbytes(f["new"]):
                    continue  # diff -N: absent == empty
                raise Machinery(f"{n} differs but has no section in the diff")
    return sections


def slashes(path):
    return path.count("/")


def strip(path, p):
    return "/".join(path.split("/")[p:])


def p_bounds(sections):
    """(min, max) number of slashes over the real post-image header paths."""
    sl = [slashes(s["plus_path"]) for s in sections if s["has_post"] and s["plus_path"]]
    if not sl:
        return None
    return min(sl), max(sl)


def expected_for(sections, p, pattern):
    """-> (expected {stripped: sorted [[lo,hi]...]}, names of strippable files, overstrip?)"""
    rx = re.compile(pattern)
    exp = {}
    strippable = set()
    over = False
    for s in sections:
        if not s["has_post"] or not s["plus_path"]:
            continue
        if slashes(s["plus_path"]) < p:
            over = True
            continue
        name = strip(s["plus_path"], p)
        strippable.add(name)
        if not rx.fullmatch(name):
            continue
        for h in s["hunks"]:
            if h["count"] > 0:
                exp.setdefault(name, []).append([h["start"], h["start"] + h["count"] - 1])
    for k in exp:
        exp[k].sort()
    return exp, strippable, over


def observe(records):
    """-> (files set, {file: sorted ranges}) summed over all invocations, or raises ValueError."""
    files = set()
    ranges = {}
    for argv in records:
        if argv.count("--file-lines") != 1:
            raise ValueError("no single --file-lines")
        k = argv.index("--file-lines")
        if k + 1 >= len(argv):
            raise ValueError("--file-lines without value")
        js = json.loads(argv[k + 1])
        files.update(argv[:k] + argv[k + 2 :])
        if not isinstance(js, list):
            raise ValueError("--file-lines is not a list")
        for e in js:
            if not (isinstance(e, dict) and isinstance(e.get("file"), str) and isinstance(e.get("range"), list)):
                raise ValueError("bad --file-lines entry")
            r = e["range"]
            if len(r) != 2 or not all(isinstance(x, int) and not isinstance(x, bool) for x in r):
                raise ValueError("bad range")
            ranges.setdefault(e["file"], []).append(list(r))
    for k in ranges:
        ranges[k].sort()
    return files, ranges


def judge(sections, p, fname, exit_status, rc, records):
    """-> dict(what=None|str, klass, nontrivial, expected, observed...)"""
    _n, farg, valid = FILTER_BY_NAME[fname]
    res = {"what": None, "class": "normal", "nontrivial": False, "expected": None, "observed": None, "ran": len(records)}
    if not valid:
        res["class"] = "invalid-regex"
        res["expected"] = "error exit, stand-in not run"
        res["observed"] = {"rc": rc, "invocations": records}
        if rc == 0 or records:
            res["what"] = "invalid-regex-accepted"
        return res
    pattern = DEFAULT_PATTERN if farg is None else farg
    exp, strippable, over = expected_for(sections, p, pattern)
    res["expected"] = exp
    res["nontrivial"] = bool(exp)
    try:
        ofiles, oranges = observe(records)
    except ValueError as e:
        res["observed"] = {"invocations": records}
        res["what"] = "bad-argv"
        res["error"] = str(e)
        return res
    res["observed"] = {"files": sorted(ofiles), "ranges": oranges, "rc": rc}
    if over:
        # some file has fewer components than -p: the property does not say what happens to
        # it; only demand that the files that CAN be stripped get exactly their own ranges
        res["class"] = "overstrip"
        of = {f for f in ofiles if f in strippable}
        orr = {k: v for k, v in oranges.items() if k in strippable}
        if of != set(exp) or orr != exp:
            res["what"] = "overstrip-misattributed"
        return res
    if not exp:
        if records:
            res["what"] = "ran-on-empty"
        return res
    if not records:
        res["what"] = "not-run"
        return res
    if ofiles != set(exp) or set(oranges) != set(exp):
        res["what"] = "files-differ"
        return res
    if oranges != exp:
        res["what"] = "ranges-differ"
        return res
    if exit_status != 0 and rc == 0:
        res["what"] = "exit-status"
    return res


X_ORDER = [0, 1, 3, "K9", "K15", "K6", "K11"]  # stand-in endings, simplest first


def combos_for(sections):
    """The (-p, filter, stand-in exit) points explored for one diff."""
    b = p_bounds(sections)
    pmax = min(3, b[1]) if b else 0
    out = []
    for p in range(pmax + 1):
        for fname, _a, valid in FILTERS:
            if valid and not (fname == "rs" and p > 0):  # explicit default pattern: once per diff
                out.append((p, fname, 0))
        out.append((p, "default", 1))
    # a failing rustfmt makes the tool fail: other exit codes, and death by a signal (no exit code at all)
    for x in (3, "K9", "K15", "K6", "K11"):
        out.append((0, "default", x))
    out.append((0, "invalid", 0))
    return out


_DIFF_CACHE = {}


def evaluate(case, diff_text=None, sections=None):
    """Run one fully specified case against the real binaries."""
    if diff_text is None:
        k = diffcase_id(case)
        hit = _DIFF_CACHE.get(k)
        if hit is None:
            diff_text = make_diff(case)
            sections = parse_and_verify(case, diff_text)
            if len(_DIFF_CACHE) > 5000:
                _DIFF_CACHE.clear()
            _DIFF_CACHE[k] = (diff_text, sections)
        else:
            diff_text, sections = hit
    _n, farg, _v = FILTER_BY_NAME[case["f"]]
    rc, out, err, records, argv = run_tool(diff_text, case["p"], farg, case["x"])
    res = judge(sections, case["p"], case["f"], case["x"], rc, records)
    res.update({"rc": rc, "argv": argv, "records": records, "stdout": out[:400], "stderr": err[:400], "diff": diff_text})
    res["abnormal"] = rc < 0 or "panicked" in err
    return res


def changed_any(dc):
    return any(
        vbytes(f["old"]) != vbytes(f["new"]) or (f["old"] is None) != (f["new"] is None) for f in dc["files"]
    )


def run_diffcase(dc):
    """Worker: one diff, every (-p, filter, exit) point.  Returns a summary."""
    out = {"id": diffcase_id(dc), "evals": 0, "nontrivial": [], "fail": [], "counts": {}, "sample": None, "err": None, "all": []}
    try:
        text = make_diff(dc)
        sections = parse_and_verify(dc, text)
        cnt = out["counts"]

        def c(k, n=1):
            cnt[k] = cnt.get(k, 0) + n

        c("diffs")
        c("diffs_" + dc["style"])
        hunks = [h for s in sections for h in s["hunks"]]
        c("hunks", len(hunks))
        c("hunks_count_missing", sum(1 for s in sections if s["has_post"] for h in s["hunks"] if h["count_missing"]))
        c("hunks_empty_postimage", sum(1 for h in hunks if h["count"] == 0))
        c("hunks_with_heading", sum(1 for h in hunks if h["heading"]))
        c("sections_multi_hunk", sum(1 for s in sections if len(s["hunks"]) > 1))
        c("diffs_multi_file", 1 if len(sections) > 1 else 0)
        if any(l.startswith("+++ z/q.rs") for l in text.split("\n")):
            c("diffs_with_decoy_file_header")
        if any(l[1:].startswith("@@ ") for l in text.split("\n") if l[:1] in "+- "):
            c("diffs_with_decoy_hunk_header")
        if "\n\\ No newline" in text:
            c("diffs_with_no_newline_marker")
        for p, fname, x in combos_for(sections):
            case = dict(dc, p=p, f=fname, x=x)
            res = evaluate(case, text, sections)
            out["evals"] += 1
            out["all"].append((p, fname, x, res["what"]))
            c("runs_class_" + res["class"])
            if res["abnormal"]:
                c("abnormal_exit")
            if res["ran"]:
                c("standin_invocations", res["ran"])
            if res["nontrivial"] and res["class"] == "normal":
                out["nontrivial"].append(case_id(case))
                if x == 0 and res["rc"] != 0 and res["what"] is None:
                    c("rc_nonzero_although_standin_succeeded")
                if out["sample"] is None and len(sections) > 1 and res["what"] is None:
                    out["sample"] = {
                        "case": case_id(case),
                        "diff": text,
                        "argv": res["argv"][1:],
                        "expected": res["expected"],
                        "standin_argv": res["records"],
                        "rc": res["rc"],
                    }
            if res["what"]:
                out["fail"].append((case, res["what"]))
    except Machinery as e:
        out["err"] = f"{diffcase_id(dc)}: {e}"
    return out


# --------------------------------------------------------------------------- reduction of violations
#
# Two phases: a free one that only moves through cases of the quick space (outcomes recorded by the
# main pass of either tier, because the thorough space contains the quick space), then a paid one
# that tries every candidate against the real binaries.  A run of the quick space therefore gets the
# same witness in both tiers.
# Every step replaces the case by a strictly simpler one (fewer files, smaller -p, default filter,
# GNU style, fewer context lines, fewer lines, more `Q` lines, earlier file name) that STILL shows the
# same kind of violation when run against the real binaries; the fixpoint is the reported witness.

_MEMO = {}  # case id -> what (shared between the worker processes when a manager is installed)
_WIT = {}  # case id + what -> witness (json)
NAME_POOL = ["x.rs", "y.rs", "a/b/c.rs", "a/b/d.rs", "src/m.txt"]


_KNOWN = {}  # canonical case id -> what, for every run of the main pass (free look-ups)


def canon(case):
    """Unchanged files do not appear in the diff at all: the bytes on stdin are the same without
    them, so dropping them is an identity for the tool.  Cases are reduced in this form."""
    fs = [
        f
        for f in case["files"]
        if (f["old"] is None) != (f["new"] is None) or (f["old"] is not None and f["old"] != f["new"])
    ]
    return dict(case, files=sorted(fs, key=lambda f: f["name"]))


def still_fails(case, what):
    case = canon(case)
    k = case_id(case)
    if k in _KNOWN:
        return _KNOWN[k] == what
    w = _MEMO.get(k, "?")
    if w == "?":
        try:
            w = evaluate(case)["what"] if changed_any(case) else None
        except Machinery:
            w = None
        _MEMO[k] = w
    return w == what


LETTER_ORDER = "QPAH"
FILTER_ORDER = [f[0] for f in FILTERS]


def measure(c):
    """Total well-founded order on cases; every reduction step goes strictly down."""
    files = c["files"]
    vs = [v for f in files for v in (f["old"], f["new"])]
    return (
        len(files),
        tuple(NAME_POOL.index(f["name"]) for f in files),
        sum(len(v["l"]) for v in vs if v is not None),
        STYLES.index(c["style"]),
        tuple((-1,) if v is None else tuple(LETTER_ORDER.index(ch) for ch in v["l"]) for v in vs),
        sum(1 for v in vs if v is not None and not v["nl"]),
        c["U"],
        c["p"],
        FILTER_ORDER.index(c["f"]),
        X_ORDER.index(c["x"]),
    )


def map_letters(case, table):
    def mv(v):
        return None if v is None else V("".join(table.get(ch, ch) for ch in v["l"]), v["nl"])

    return dict(case, files=[dict(f, old=mv(f["old"]), new=mv(f["new"])) for f in case["files"]])


def version_steps(f):
    """(old, new) pairs simpler than f's."""
    o, n = f["old"], f["new"]
    if o is not None and n is not None:
        so, sn = o["l"], n["l"]
        for a in range(len(so)):
            for b in range(len(sn)):
                if so[a] == sn[b]:
                    yield V(so[:a] + so[a + 1 :], o["nl"] or len(so) == 1), V(sn[:b] + sn[b + 1 :], n["nl"] or len(sn) == 1)
        yield None, n
    if o is None and n is not None:
        yield V(""), n
    if n is None and o is not None:
        yield o, V("")
    for side, v in (("old", o), ("new", n)):
        if v is None:
            continue
        s_ = v["l"]
        outs = []
        if not v["nl"]:
            outs.append(V(s_, True))
        for k in range(len(s_)):
            outs.append(V(s_[:k] + s_[k + 1 :], v["nl"] or len(s_) == 1))
        for k in range(len(s_)):
            for ch in LETTER_ORDER[: LETTER_ORDER.index(s_[k])]:
                outs.append(V(s_[:k] + ch + s_[k + 1 :], v["nl"]))
        for w in outs:
            yield (w, n) if side == "old" else (o, w)


def raw_candidates(case):
    files = case["files"]
    nf = len(files)

    def with_file(i, **kw):
        return dict(case, files=files[:i] + [dict(files[i], **kw)] + files[i + 1 :])

    # 1. drop a file
    if nf > 1:
        for i in range(nf):
            yield dict(case, files=files[:i] + files[i + 1 :])
    # 2. simpler parameters
    if case["x"] != 0:
        yield dict(case, x=0)
    if case["style"] != "gnu":
        yield dict(case, style="gnu")
    if case["f"] != "invalid":
        for fi in range(FILTER_ORDER.index(case["f"])):
            yield dict(case, f=FILTER_ORDER[fi])
        for p in range(case["p"]):
            yield dict(case, p=p)
            for fn in FILTER_ORDER[:-1]:
                yield dict(case, p=p, f=fn)
    # 3. earlier file names (the parameters may have to change with the name)
    used = {f["name"] for f in files}
    for i, f in enumerate(files):
        for name in NAME_POOL[: NAME_POOL.index(f["name"])]:
            if name in used:
                continue
            c = with_file(i, name=name)
            yield c
            if case["f"] != "invalid":
                for p in range(4):
                    for fn in FILTER_ORDER[:-1]:
                        yield dict(c, p=p, f=fn)
    for i in range(nf):
        for j in range(i + 1, nf):
            fs = list(files)
            fs[i] = dict(files[i], name=files[j]["name"])
            fs[j] = dict(files[j], name=files[i]["name"])
            yield dict(case, files=fs)
    # 4. lines of one kind all become a simpler kind; two kinds swap
    present = {ch for f in files for v in (f["old"], f["new"]) if v is not None for ch in v["l"]}
    for ch in LETTER_ORDER[::-1]:
        if ch in present:
            for lo in LETTER_ORDER[: LETTER_ORDER.index(ch)]:
                yield map_letters(case, {ch: lo})
    for ch in present:
        for lo in present:
            if LETTER_ORDER.index(lo) < LETTER_ORDER.index(ch):
                yield map_letters(case, {ch: lo, lo: ch})
    # 5. simpler file versions (fewer context lines usually need a shorter file to show the same thing)
    for i, f in enumerate(files):
        for o, n in version_steps(f):
            c = with_file(i, old=o, new=n)
            yield c
            for u in range(case["U"]):
                yield dict(c, U=u)
    for u in range(case["U"]):
        yield dict(case, U=u)


def candidates(case):
    m = measure(case)
    seen = set()
    for c in raw_candidates(case):
        c = canon(c)
        if not c["files"]:
            continue
        k = case_id(c)
        if k in seen:
            continue
        seen.add(k)
        if measure(c) < m:
            yield c


_KNOWN_Q = {}  # the part of _KNOWN that belongs to the quick space


def reduce_free(case, what, cache):
    """Reduction steps through cases of the quick space whose outcome the main pass has recorded
    (no process is run; candidates outside that space are skipped here and tried by reduce_case)."""
    cur = case
    path = []
    while True:
        k = case_id(cur)
        if k in cache:
            cur = cache[k]
            break
        path.append(k)
        nxt = None
        for cand in candidates(cur):
            if _KNOWN_Q.get(case_id(cand), "?") == what:
                nxt = cand
                break
        if nxt is None:
            break
        cur = nxt
    for k in path:
        cache[k] = cur
    return cur


def reduce_case(item):
    case, what = item
    cur = case
    path = []
    found = None
    for _ in range(300):
        key = case_id(cur) + "#" + what
        w = _WIT.get(key)
        if w is not None:
            found = json.loads(w)
            break
        path.append(key)
        nxt = None
        for cand in candidates(cur):
            if still_fails(cand, what):
                nxt = cand
                break
        if nxt is None:
            found = cur
            break
        cur = nxt
    if found is None:
        found = cur
    js = json.dumps(found)
    for key in path:
        _WIT[key] = js
    return found


def recheck(case):
    try:
        return evaluate(case)["what"]
    except Machinery as e:
        return f"machinery: {e}"


def witness_key(c):
    return (size_key(c), c["p"], [f[0] for f in FILTERS].index(c["f"]), X_ORDER.index(c["x"]))


# --------------------------------------------------------------------------- enumeration


def single_edits(old, ins_letters, repl_letters):
    """[(tag, new)] one edit at the first / middle / last line."""
    n = len(old)
    out = []
    pos_ins = [("first", 0)]
    if n >= 2:
        pos_ins.append(("mid", n // 2))
    if n >= 1:
        pos_ins.append(("last", n))
    for tag, i in pos_ins:
        for ch in ins_letters:
            out.append((f"ins-{tag}-{ch}", old[:i] + ch + old[i:]))
    pos = []
    if n >= 1:
        pos.append(("first", 0))
    if n >= 3:
        pos.append(("mid", n // 2))
    if n >= 2:
        pos.append(("last", n - 1))
    for tag, i in pos:
        out.append((f"del-{tag}", old[:i] + old[i + 1 :]))
        for ch in repl_letters:
            if ch != old[i]:
                out.append((f"repl-{tag}-{ch}", old[:i] + ch + old[i + 1 :]))
    return out


def double_edits(old, first_letters, last_letters):
    """One edit at the first line and one at the last line (two hunks when context is small)."""
    n = len(old)
    if n < 3:
        return []
    heads = [(f"ins-first-{c}", c + old[0]) for c in first_letters]
    heads.append(("del-first", ""))
    heads += [(f"repl-first-{c}", c) for c in first_letters if c != old[0]]
    tails = [(f"ins-last-{c}", old[-1] + c) for c in last_letters]
    tails.append(("del-last", ""))
    tails += [(f"repl-last-{c}", c) for c in last_letters if c != old[-1]]
    out = []
    for ht, h in heads:
        for tt, t in tails:
            out.append((f"{ht}+{tt}", h + old[1:-1] + t))
    return out


def all_lists(maxlen, alphabet="PQHA"):
    out = [""]
    layer = [""]
    for _ in range(maxlen):
        layer = [s + c for s in layer for c in alphabet]
        out += layer
    return out


# per-file changes whose products over 2-3 files form part 3 of the space
SMALL = [
    (V("PQQ"), V("PQQ")),  # unchanged
    (V("PQP"), V("PQPQ")),  # append: `+4` without count at -U0
    (V("QQQ"), V("HQQQQ")),  # decoy header in the first of two hunks
    (V("PQ"), None),  # file deleted
    (V("PQA"), V("PQ")),  # pure deletion hunk
    (None, V("QQ")),  # file created
]
SMALL_THOROUGH = [(V("PPP"), V("PPPQ")), (V("QAQ"), V("HAQ")), (V("PQA"), V("QQAH"))]


def file_changes(thorough):
    """Catalogue of (old version, new version) pairs of one file that exists on both sides."""
    seen = set()
    out = []

    def add(o, n, onl=True, nnl=True):
        if len(n) > 5 or len(o) > 5:
            return
        k = (o, n, onl, nnl)
        if (o == n and onl == nnl) or k in seen:
            return
        seen.add(k)
        out.append((V(o, onl), V(n, nnl)))

    if thorough:
        bases = all_lists(3) + ["QAQP", "PQHA", "PPPP", "QQQQ"]
        il = rl = "PQHA"
        fl, ll = "HQ", "QA"
    else:
        bases = ["", "Q", "PPP", "PQA", "QAQP"]
        il = rl = "QH"
        fl, ll = "HQ", "QA"
    for b in bases:
        for _t, n in single_edits(b, il, rl):
            add(b, n)
    for b in bases:
        for _t, n in double_edits(b, fl, ll):
            add(b, n)
    for o, n in SMALL + SMALL_THOROUGH:
        if o is not None and n is not None:
            add(o["l"], n["l"])
    # final-newline changes
    add("PQ", "PQ", True, False)
    add("PQ", "PQ", False, True)
    add("PQ", "PQQ", True, False)
    add("PQ", "PQQ", False, False)
    add("PQH", "PQ", True, False)
    return out


def enumerate_diffcases(thorough):
    """Every (tree pair, style, context) of the tier, simplest first.  The thorough space contains
    the quick space; "quick" marks the members of the latter."""
    quick = enumerate_trees(False)
    qset = {tree_repr(t) for t in quick}
    trees = quick
    if thorough:
        trees = quick + [t for t in enumerate_trees(True) if tree_repr(t) not in qset]
    dcs = []
    for files in trees:
        for style in STYLES:
            for u in (0, 1, 2, 3):
                dcs.append({"style": style, "U": u, "files": files})
    dcs.sort(key=size_key)
    return dcs, qset


def enumerate_trees(thorough):
    """All tree pairs of the tier (without style / U), each a list of file dicts sorted by name."""
    trees = []
    seen = set()

    def add(files):
        files = sorted(files, key=lambda f: f["name"])
        k = tree_repr(files)
        if k in seen:
            return
        seen.add(k)
        dc = {"files": files}
        if changed_any(dc):
            trees.append(files)

    def F(name, old, new):
        return {"name": name, "old": old, "new": new}

    cat = file_changes(thorough)
    sib = {"x.rs": "src/m.txt", "src/m.txt": "x.rs", "a/b/c.rs": "a/b/d.rs"}
    # part 1: one changed file (every catalogue entry) next to an unchanged sibling
    for o, n in cat:
        add([F("x.rs", o, n), F("src/m.txt", V("PQ"), V("PQ"))])
    # the same on a deep path (-p 2, 3) and on a path the default filter rejects
    if thorough:
        sub = [(o, n) for o, n in cat if o["l"] in ("", "Q", "PQA", "QQQ", "PPP", "HQA", "QAQP", "PQP", "QAQ")]
    else:
        sub = [(o, n) for o, n in cat if o["l"] in ("", "PQA") or (o, n) in SMALL]
    for focus in ("a/b/c.rs", "src/m.txt"):
        for o, n in sub:
            add([F(focus, o, n), F(sib[focus], V("PQ"), V("PQ"))])
    # part 2: file-level events
    conts = ["Q", "PQ", "QQ", "PQA", "HQ"] + (["", "QQQQQ", "AH"] if thorough else [])
    for name in ("x.rs", "a/b/c.rs", "src/m.txt"):
        for c in conts:
            add([F(name, V(c), None), F(sib[name], V("PQ"), V("PQ"))])  # deletion
            add([F(name, None, V(c)), F(sib[name], V("PQ"), V("PQ"))])  # creation
    for c, c2 in [("PQA", "PQA"), ("PQA", "PQAQ"), ("PQAQ", "HPQAQ"), ("QQQ", "HQQQQ")]:
        add([F("x.rs", V(c), None), F("y.rs", None, V(c2)), F("src/m.txt", V("PQ"), V("PQ"))])  # rename
        add([F("a/b/c.rs", V(c), None), F("a/b/d.rs", None, V(c2))])
        add([F("src/m.txt", V(c), None), F("x.rs", None, V(c2))])  # rename across the filter
    # part 3: products of a small per-file catalogue over 2-3 files
    small = SMALL + (SMALL_THOROUGH if thorough else [])
    name_sets = [("a/b/c.rs", "x.rs"), ("src/m.txt", "x.rs"), ("a/b/c.rs", "src/m.txt"), ("a/b/c.rs", "a/b/d.rs")]
    if not thorough:
        name_sets = [name_sets[0], name_sets[1], name_sets[3]]
    for ns in name_sets:
        for c0 in small:
            for c1 in small:
                add([F(ns[0], *c0), F(ns[1], *c1)])
    three = small if thorough else [small[1], small[2], small[3]]
    for c0 in three:
        for c1 in three:
            for c2 in three:
                add([F("a/b/c.rs", *c0), F("src/m.txt", *c1), F("x.rs", *c2)])
    return trees


# --------------------------------------------------------------------------- replay


def expand(case):
    return {f["name"]: {"old": None if f["old"] is None else vbytes(f["old"]).decode(), "new": None if f["new"] is None else vbytes(f["new"]).decode()} for f in case["files"]}


def replay(path):
    rec = json.load(open(path))
    case = rec["detail"]["case"]
    require_bins(FORMAT_DIFF)
    with setup_scratch():
        print(f"property {rec['property']}  what={rec['what']}")
        print(f"case {case_id(case)}")
        print("tree pair (letters: " + ", ".join(f"{k}={v!r}" for k, v in LETTERS.items()) + "; ~ absent, 0 empty, ! no final newline):")
        for name, v in expand(case).items():
            print(f"  {name}\n    old: {v['old']!r}\n    new: {v['new']!r}")
        try:
            res = evaluate(case)
        except Machinery as e:
            print(f"machinery error: {e}")
            sys.exit(2)
        print(f"diff ({case['style']}, -U{case['U']}) fed on stdin:")
        print("".join("  | " + l + "\n" for l in res["diff"].split("\n")[:-1]), end="")
        print("argv: RUSTFMT=<recording stand-in ending with %s (K<n> = killed by signal n)> %s" % (case["x"], " ".join(res["argv"])))
        print(f"tool exit status: {res['rc']}")
        print(f"stand-in invocations: {json.dumps(res['records'])}")
        print(f"class: {res['class']}")
        print(f"expected: {json.dumps(res['expected'], sort_keys=True)}")
        print(f"observed: {json.dumps(res['observed'], sort_keys=True)}")
        print(f"verdict: {res['what'] or 'holds'}")
        sys.exit(1 if res["what"] else 0)


# --------------------------------------------------------------------------- main


def main():
    if len(sys.argv) >= 3 and sys.argv[1] == "--replay":
        replay(sys.argv[2])
        return
    require_bins(FORMAT_DIFF)
    for tool in ("diff", "git", "sh"):
        if shutil.which(tool, path=base_env()["PATH"]) is None:
            print(f"machinery error: {tool} not found", file=sys.stderr)
            sys.exit(2)
    run = Run(
        PROP,
        "exploration",
        rule="the diff has >= 1 hunk with a non-empty post-image in a file whose stripped path fully matches the "
        "filter (so the stand-in must be run with a non-empty --file-lines); counted per (diff, -p, filter, "
        "stand-in exit) in class normal",
        assumptions=[
            "GNU diff 3.8 and git 2.39 produce correct unified diffs; every hunk is nevertheless verified "
            "against the two versions before it is used as the expectation",
            "a filter matches a path when it matches the whole stripped path (default `.*\\.rs`)",
            "a -p value larger than the depth of some post-image path (class overstrip) is checked only for "
            "the files that can be stripped: they must get exactly their own ranges",
            "exit status after a successful stand-in and number / order of arguments are not checked "
            "(the property is silent); paths with spaces are excluded",
            "violating cases are reduced against the real binaries and reported once per reduced witness",
        ],
    )
    with setup_scratch():
        dcs, qset = enumerate_diffcases(run.thorough)
        run.count("tree_pairs", len({tree_repr(d["files"]) for d in dcs}))
        results = pmap(run_diffcase, dcs)
        print(f"[C19] main pass done at {time.time() - run.start:.1f}s", file=sys.stderr)
        errs = [r["err"] for r in results if r["err"]]
        if errs:
            for e in errs[:10]:
                print(f"machinery error: {e}", file=sys.stderr)
            sys.exit(2)
        fails = []
        for r in results:
            run.evaluated(r["evals"])
            for k, v in r["counts"].items():
                run.count(k, v)
            for n in r["nontrivial"]:
                run.nontrivial_case(n)
            if r["sample"]:
                run.sample(r["sample"], limit=4)
            fails += r["fail"]
        run.count("violating_runs", len(fails))
        # every violating run is reduced to a witness; the witness is run again before it is reported
        global _MEMO, _WIT
        for dc, r in zip(dcs, results):
            for p, fname, x, what in r["all"]:
                k = case_id(canon(dict(dc, p=p, f=fname, x=x)))
                _KNOWN[k] = what
                if tree_repr(dc["files"]) in qset:
                    _KNOWN_Q[k] = what
        # free steps: drop unchanged files; of the violating runs of one diff keep the simplest parameters
        best = {}
        for case, what in fails:
            c = canon(case)
            k = (diffcase_id(c), what)
            if k not in best or measure(c) < measure(best[k]):
                best[k] = c
        run.count("violating_diffs", len(best))
        # determinism: the representative of every violating diff is run a second time
        keys = sorted(best, key=lambda k: (measure(best[k]), k[1]))
        second = pmap(recheck, [best[k] for k in keys], chunk=8)
        for k, w2 in zip(keys, second):
            if w2 != k[1]:
                c = best.pop(k)
                run.violation(case_id(c), "nondeterministic", {"case": c, "first": k[1], "second": w2})
        # cheap pre-reduction through cases of the QUICK space only (their outcomes are known in
        # both tiers, so a run of the quick space gets the same witness in both tiers)
        free = {}
        caches = {}
        for k, c in best.items():
            free[k] = reduce_free(c, k[1], caches.setdefault(k[1], {}))
        starts = {}
        for k, c in free.items():
            starts[(case_id(c), k[1])] = (c, k[1])
        stable = sorted(starts.values(), key=lambda cw: (measure(cw[0]), cw[1]))
        run.count("reduction_starts", len(stable))
        print(f"[C19] {len(fails)} violating runs -> {len(stable)} reduction starts at {time.time() - run.start:.1f}s", file=sys.stderr)
        mgr = None
        if len(stable) > 50:
            import multiprocessing

            mgr = multiprocessing.get_context("fork").Manager()
            _MEMO, _WIT = mgr.dict(), mgr.dict()
        witnesses = pmap(reduce_case, stable, chunk=2)
        run.count("reduction_runs", len(_MEMO))
        if mgr is not None:
            mgr.shutdown()
        print(f"[C19] reduced at {time.time() - run.start:.1f}s", file=sys.stderr)
        wit_of_start = {(case_id(c), w): wit for (c, w), wit in zip(stable, witnesses)}
        groups = {}
        for case, what in fails:
            if (diffcase_id(canon(case)), what) not in free:
                continue  # reported as nondeterministic
            st = free[(diffcase_id(canon(case)), what)]
            w = wit_of_start[(case_id(st), what)]
            g = groups.setdefault((case_id(w), what), {"case": w, "what": what, "from": []})
            g["from"].append(case_id(case))
        for (wid, what), g in sorted(groups.items(), key=lambda kv: (witness_key(kv[1]["case"]), kv[0][1])):
            res = evaluate(g["case"])
            if res["what"] != what:
                run.violation(wid, "nondeterministic", {"case": g["case"], "first": what, "second": res["what"]})
                continue
            run.violation(
                wid,
                what,
                {
                    "case": g["case"],
                    "tree_pair": expand(g["case"]),
                    "diff": res["diff"],
                    "argv": res["argv"],
                    "standin_exit": g["case"]["x"],
                    "class": res["class"],
                    "expected": res["expected"],
                    "observed": res["observed"],
                    "standin_invocations": res["records"],
                    "tool_rc": res["rc"],
                    "reduced_from_count": len(g["from"]),
                    "reduced_from_first": g["from"][:5],
                },
            )
        run.extra["witnesses"] = [
            {"case": wid, "what": what, "violating_runs": len(g["from"])} for (wid, what), g in sorted(groups.items())
        ]
        run.extra["space"] = {
            "alphabet": LETTERS,
            "styles": STYLES,
            "context": [0, 1, 2, 3],
            "filters": {f[0]: f[1] for f in FILTERS},
            "p": "0..min(3, deepest post-image path); class overstrip when above the depth of some file",
            "tree_pairs": "see module docstring: (1) catalogue on one file, (2) file-level events, (3) products of SMALL",
            "standin_exit": "0; 1 with the default filter",
        }
        run.finish()


if __name__ == "__main__":
    main()
