#!/usr/bin/env python3
"""C18 - cargo fmt formats the right targets with the right editions.

Bounded exhaustive exploration of

    workspace shape W x selection S x working directory C x pass-through P x stand-in script X

against the real `cargo-fmt` binary.  `RUSTFMT` points at a recording stand-in
(a generated /bin/sh script) which appends its argv as one JSON line to a log
and exits as scripted per `--edition` (0, 1, 2 or SIGKILL on itself);
`cargo metadata` is the real cargo of the pinned toolchain.

A case is W0 (the default workspace) plus *deviations*: every W sub-dimension
moved away from its default counts 1, and so does every one of S, C, P, X that
is not its default.  quick explores every case with <= 2 deviations, thorough
every case with <= 3, simplest first.

The oracle is a reference model computed from the workspace description the
manifests were rendered from (never from cargo-fmt's code): see `select()` and
`judge()`.

usage: c18.py quick|thorough
       c18.py --replay <file>
"""

import itertools
import json
import os
import shutil
import subprocess
import sys
from collections import Counter

sys.path.insert(0, os.path.dirname(os.path.abspath(__file__)))
import common  # noqa: E402

EDITIONS = ["2015", "2018", "2021", "2024"]


# --------------------------------------------------------------------------
# the recording stand-in
# --------------------------------------------------------------------------

STANDIN = r"""#!/bin/sh
# recording stand-in for rustfmt (C18): one JSON array of argv per line
ed=
prev=
line=
sep=
for a in "$@"; do
  case $prev in --edition) ed=$a;; esac
  case $a in --edition=*) ed=${a#--edition=};; esac
  prev=$a
  s=$a; out=
  while :; do
    case $s in
      *[\\\"]*) pre=${s%%[\\\"]*}; rest=${s#"$pre"}; c=${rest%"${rest#?}"}; out="$out$pre\\$c"; s=${rest#?};;
      *) out="$out$s"; break;;
    esac
  done
  line="$line$sep\"$out\""
  sep=,
done
printf '[%s]\n' "$line" >> "$C18_LOG"
case $ed in
  2015|2018|2021|2024) eval "st=\${C18_ST_$ed:-0}";;
  *) st=0;;
esac
case $st in
  KILL) kill -9 $$;;
  *) exit "$st";;
esac
"""


# --------------------------------------------------------------------------
# workspace alphabet: sub-dimensions, first value is the default (W0)
# --------------------------------------------------------------------------

W_DIMS = [
    ("members", [2, 1, 3, 4]),  # packages a, b, c, d (not counting the root package of `rooted`)
    ("shape", ["virtual", "rooted", "plain"]),  # rooted: extra root package r; plain: lone package, no [workspace]
    ("a_kinds", ["lib+bin", "+bin2", "+example", "+test", "+bench", "+build", "all", "lib", "bin"]),
    ("a_edition", ["2021", "omitted", "2015", "2018", "2024", "inherit"]),
    ("target_ed", ["none", "bin", "lib", "extras", "mixed"]),  # per-target edition overrides in a
    ("layout", ["auto", "explicit"]),  # auto-discovered conventional paths / declared custom paths
    ("dep_ab", ["normal", "none", "dev", "build", "target", "renamed", "cycle"]),  # a -> b inside the workspace
    ("ext", ["none", "x", "x->y", "x<->y", "x->b", "x-in-ws", "same-name", "vendored", "from-b"]),
    ("shared", ["none", "same-ed", "diff-ed", "symlink", "cross-pkg"]),  # two targets, one source path
    ("nested", [False, True]),  # a member below another member's directory
    ("b_lib", ["lib", "proc-macro"]),
]
W_DEFAULT = {k: v[0] for k, v in W_DIMS}


class Invalid(Exception):
    """The combination of workspace deviations does not describe a workspace."""


CONV_PATH = {
    "lib": "src/lib.rs",
    "bin": "src/main.rs",
    "bin2": "src/bin/{n}.rs",
    "example": "examples/{n}.rs",
    "test": "tests/{n}.rs",
    "bench": "benches/{n}.rs",
    "build": "build.rs",
}
EXPL_PATH = {
    "lib": "lib/entry.rs",
    "bin": "cmd/main.rs",
    "bin2": "cmd/second.rs",
    "example": "demo/ex.rs",
    "test": "check/t.rs",
    "bench": "perf/b.rs",
    "build": "scripts/build.rs",
}
HEADER = {"lib": "[lib]", "bin": "[[bin]]", "bin2": "[[bin]]", "example": "[[example]]", "test": "[[test]]", "bench": "[[bench]]"}


def mk_pkg(name, pdir, edition_decl, kinds, member=True, version="0.1.0", layout="auto", pkgname=None):
    pkgname = pkgname or name
    tnames = {"lib": pkgname, "bin": pkgname, "bin2": pkgname + "_two", "example": "ex", "test": "it", "bench": "bn", "build": "build-script-build"}
    targets = []
    for k in kinds:
        n = tnames[k]
        if layout == "explicit":
            path, declare = EXPL_PATH[k], True
        else:
            path, declare = CONV_PATH[k].format(n=n), False
        targets.append({"kind": k, "name": n, "path": path, "edition": None, "declare": declare, "proc_macro": False, "symlink_to": None})
    return {
        "name": name,  # identity inside the model
        "pkgname": pkgname,  # `name =` in the manifest
        "dir": pdir,  # relative to the case root
        "member": member,
        "edition_decl": edition_decl,  # "20xx" | None (omitted) | "inherit"
        "version": version,
        "targets": targets,
        "deps": [],  # {"section", "key", "to" (model name), "package" (rename) }
        "ws_table": None,
    }


def build_ws(mods):
    """mods: {dim: value} deviations from W_DEFAULT -> workspace model (pure data)."""
    o = dict(W_DEFAULT)
    o.update(mods)
    n = o["members"]
    shape = o["shape"]
    if shape == "plain":
        if "members" in mods:
            raise Invalid("plain package has exactly one member")
        n = 1
    has_b = n >= 2

    kinds = {
        "lib+bin": ["lib", "bin"],
        "+bin2": ["lib", "bin", "bin2"],
        "+example": ["lib", "bin", "example"],
        "+test": ["lib", "bin", "test"],
        "+bench": ["lib", "bin", "bench"],
        "+build": ["lib", "bin", "build"],
        "all": ["lib", "bin", "bin2", "example", "test", "bench", "build"],
        "lib": ["lib"],
        "bin": ["bin"],
    }[o["a_kinds"]]

    ws_edition = None
    a_decl = o["a_edition"]
    if a_decl == "omitted":
        a_decl = None
    if a_decl == "inherit":
        if shape == "plain":
            raise Invalid("no workspace to inherit from")
        ws_edition = "2024"

    ws = "ws"
    a_dir = ws if shape == "plain" else ws + "/a"
    pk = {}
    pk["a"] = mk_pkg("a", a_dir, a_decl, kinds, layout=o["layout"])
    if has_b:
        pk["b"] = mk_pkg("b", ws + "/b", "2018", ["lib"])
    if n >= 3:
        pk["c"] = mk_pkg("c", ws + "/c", "2024", ["lib", "test"])
        pk["b"]["deps"].append({"section": "dependencies", "key": "c", "to": "c", "package": None})
    if n >= 4:
        pk["d"] = mk_pkg("d", ws + "/d", "2015", ["bin", "build"])
    if shape == "rooted":
        pk["r"] = mk_pkg("r", ws, "2018", ["lib"])
        pk["r"]["deps"].append({"section": "dependencies", "key": "a", "to": "a", "package": None})
    if o["nested"]:
        if shape == "plain":
            raise Invalid("nested member needs a workspace")
        pk["n"] = mk_pkg("n", a_dir + "/sub", "2015", ["lib", "example"])

    a = pk["a"]

    def eff(p):
        d = p["edition_decl"]
        return "2015" if d is None else (ws_edition if d == "inherit" else d)

    def other_than(e, k=1):
        return EDITIONS[(EDITIONS.index(e) + k) % 4]

    # per-target edition overrides in a
    te = o["target_ed"]
    by_kind = {t["kind"]: t for t in a["targets"]}
    if te == "bin":
        if "bin" not in by_kind:
            raise Invalid("no bin")
        by_kind["bin"].update(edition="2018" if eff(a) == "2015" else "2015", declare=True)
    elif te == "lib":
        if "lib" not in by_kind:
            raise Invalid("no lib")
        by_kind["lib"].update(edition="2018" if eff(a) == "2024" else "2024", declare=True)
    elif te == "extras":
        extras = [t for t in a["targets"] if t["kind"] in ("bin2", "example", "test", "bench")]
        if not extras:
            raise Invalid("no extra targets")
        for t in extras:
            t.update(edition="2015" if eff(a) == "2018" else "2018", declare=True)
    elif te == "mixed":
        k = 1
        for t in a["targets"]:
            if t["kind"] != "build":
                t.update(edition=other_than(eff(a), k), declare=True)
                k += 1

    # a -> b
    d_ab = o["dep_ab"]
    if not has_b and "dep_ab" in mods:
        raise Invalid("no b")
    if has_b:
        if d_ab in ("normal", "cycle"):
            a["deps"].append({"section": "dependencies", "key": "b", "to": "b", "package": None})
        elif d_ab == "dev":
            a["deps"].append({"section": "dev-dependencies", "key": "b", "to": "b", "package": None})
        elif d_ab == "build":
            a["deps"].append({"section": "build-dependencies", "key": "b", "to": "b", "package": None})
        elif d_ab == "target":
            a["deps"].append({"section": "target.'cfg(unix)'.dependencies", "key": "b", "to": "b", "package": None})
        elif d_ab == "renamed":
            a["deps"].append({"section": "dependencies", "key": "bee", "to": "b", "package": "b"})
        if d_ab == "cycle":
            pk["b"]["deps"].append({"section": "dev-dependencies", "key": "a", "to": "a", "package": None})

    # path dependencies that are not workspace members
    ext = o["ext"]
    exclude = []
    if ext in ("x", "x->y", "x<->y", "x->b", "from-b"):
        pk["x"] = mk_pkg("x", "ext/x", "2015", ["lib", "build"], member=False)
        src = "a"
        if ext == "from-b":
            if not has_b:
                raise Invalid("no b")
            src = "b"
        pk[src]["deps"].append({"section": "dependencies", "key": "x", "to": "x", "package": None})
        if ext in ("x->y", "x<->y"):
            pk["y"] = mk_pkg("y", "ext/y", "2024", ["lib", "example"], member=False)
            pk["x"]["deps"].append({"section": "dependencies", "key": "y", "to": "y", "package": None})
        if ext == "x<->y":
            pk["y"]["deps"].append({"section": "dev-dependencies", "key": "x", "to": "x", "package": None})
        if ext == "x->b":
            if not has_b:
                raise Invalid("no b")
            pk["x"]["deps"].append({"section": "dependencies", "key": "b", "to": "b", "package": None})
    elif ext == "x-in-ws":
        # x is a member of ANOTHER workspace whose second member z is nobody's dependency
        pk["x"] = mk_pkg("x", "ext/ows/x", "2015", ["lib", "build"], member=False)
        pk["z"] = mk_pkg("z", "ext/ows/z", "2018", ["lib"], member=False)
        pk["z"]["unrelated"] = True
        a["deps"].append({"section": "dependencies", "key": "x", "to": "x", "package": None})
    elif ext == "same-name":
        if not has_b:
            raise Invalid("no b")
        pk["x1"] = mk_pkg("x1", "ext/x1", "2015", ["lib"], member=False, pkgname="x", version="0.1.0")
        pk["x2"] = mk_pkg("x2", "ext/x2", "2024", ["lib"], member=False, pkgname="x", version="0.2.0")
        a["deps"].append({"section": "dependencies", "key": "x", "to": "x1", "package": None})
        pk["b"]["deps"].append({"section": "dependencies", "key": "x", "to": "x2", "package": None})
    elif ext == "vendored":
        pk["x"] = mk_pkg("x", ws + "/vendor/x", "2015", ["lib", "build"], member=False)
        a["deps"].append({"section": "dependencies", "key": "x", "to": "x", "package": None})
        if shape != "plain":
            exclude.append("vendor/x")

    # shared source paths
    sh = o["shared"]
    if sh != "none":
        prim = by_kind.get("bin") or by_kind.get("lib")
        prim_ed = prim["edition"] or eff(a)
        if sh == "same-ed":
            a["targets"].append({"kind": "example", "name": "shared", "path": prim["path"], "edition": prim["edition"], "declare": True, "proc_macro": False, "symlink_to": None})
        elif sh == "diff-ed":
            a["targets"].append({"kind": "example", "name": "shared", "path": prim["path"], "edition": other_than(prim_ed, 2), "declare": True, "proc_macro": False, "symlink_to": None})
        elif sh == "symlink":
            a["targets"].append({"kind": "example", "name": "linked", "path": "examples/linked.rs", "edition": prim["edition"], "declare": True, "proc_macro": False, "symlink_to": prim["path"]})
        elif sh == "cross-pkg":
            if not has_b or "lib" not in by_kind:
                raise Invalid("needs b and a's lib")
            rel = os.path.relpath(os.path.join(a["dir"], by_kind["lib"]["path"]), pk["b"]["dir"])
            pk["b"]["targets"].append({"kind": "example", "name": "cross", "path": rel, "edition": None, "declare": True, "proc_macro": False, "symlink_to": None})

    if o["b_lib"] == "proc-macro":
        if not has_b:
            raise Invalid("no b")
        pk["b"]["targets"][0].update(proc_macro=True, declare=True)

    # In edition 2015 cargo turns auto-discovery of a target type off as soon as one target of
    # that type is declared; so a declared target makes every target of its section declared.
    for p in pk.values():
        declared_sections = {HEADER[t["kind"]] for t in p["targets"] if t["declare"] and t["kind"] != "build"}
        for t in p["targets"]:
            if t["kind"] != "build" and HEADER[t["kind"]] in declared_sections:
                t["declare"] = True

    # workspace table
    member_dirs = [os.path.relpath(p["dir"], ws) for p in pk.values() if p["member"] and p["dir"] != ws]
    if shape != "plain":
        t = ["[workspace]", 'resolver = "2"', "members = [" + ", ".join(f'"{d}"' for d in member_dirs) + "]"]
        if exclude:
            t.append("exclude = [" + ", ".join(f'"{d}"' for d in exclude) + "]")
        if ws_edition:
            t += ["", "[workspace.package]", f'edition = "{ws_edition}"']
        ws_table = "\n".join(t) + "\n"
    else:
        ws_table = None

    files, symlinks = {}, {}
    for p in pk.values():
        extra = ws_table if (p["dir"] == ws and shape == "rooted") else None
        files[p["dir"] + "/Cargo.toml"] = render_manifest(p, pk, extra)
        for t in p["targets"]:
            rel = os.path.normpath(os.path.join(p["dir"], t["path"]))
            if t["symlink_to"]:
                symlinks[rel] = os.path.relpath(os.path.join(p["dir"], t["symlink_to"]), os.path.dirname(rel))
            elif rel not in files:
                files[rel] = "// lib\n" if t["kind"] == "lib" else "fn main() {}\n"
    if shape == "virtual":
        files[ws + "/Cargo.toml"] = ws_table
    if ext == "x-in-ws":
        files["ext/ows/Cargo.toml"] = '[workspace]\nresolver = "2"\nmembers = ["x", "z"]\n'
    # fixtures for the unusable --manifest-path selections (outside every workspace / inert)
    files["garbage/Cargo.toml"] = "this is = = not [ toml\n"
    files[a["dir"] + "/xCargo.toml"] = files[a["dir"] + "/Cargo.toml"]

    model = {
        "mods": dict(mods),
        "shape": shape,
        "ws_root": ws,
        "files": files,
        "symlinks": symlinks,
        "cur": "a",
        "other": "b" if has_b else ("r" if shape == "rooted" else None),
        "packages": {},
    }
    for name, p in pk.items():
        e = eff(p)
        model["packages"][name] = {
            "dir": p["dir"],
            "member": p["member"],
            "pkgname": p["pkgname"],
            "unrelated": bool(p.get("unrelated")),
            "targets": [(os.path.normpath(os.path.join(p["dir"], t["symlink_to"] or t["path"])), t["edition"] or e) for t in p["targets"]],
            "deps": [d["to"] for d in p["deps"]],
        }
    return model


def render_manifest(p, pk, ws_table):
    L = ["[package]", f'name = "{p["pkgname"]}"', f'version = "{p["version"]}"']
    if p["edition_decl"] == "inherit":
        L.append("edition.workspace = true")
    elif p["edition_decl"]:
        L.append(f'edition = "{p["edition_decl"]}"')
    for t in p["targets"]:
        if t["kind"] == "build" and t["path"] != "build.rs":
            L.append(f'build = "{t["path"]}"')
    for t in p["targets"]:
        if t["kind"] == "build" or not t["declare"]:
            continue
        L += ["", HEADER[t["kind"]], f'name = "{t["name"]}"', f'path = "{t["path"]}"']
        if t["edition"]:
            L.append(f'edition = "{t["edition"]}"')
        if t["proc_macro"]:
            L.append("proc-macro = true")
    sections = []
    for d in p["deps"]:
        if d["section"] not in sections:
            sections.append(d["section"])
    for s in sections:
        L += ["", f"[{s}]"]
        for d in p["deps"]:
            if d["section"] != s:
                continue
            rel = os.path.relpath(pk[d["to"]]["dir"], p["dir"])
            ren = f', package = "{d["package"]}"' if d["package"] else ""
            L.append(f'{d["key"]} = {{ path = "{rel}"{ren} }}')
    out = "\n".join(L) + "\n"
    if ws_table:
        out += "\n" + ws_table
    return out


def materialise(root, files, symlinks):
    common.write_tree(root, files)
    for rel, target in symlinks.items():
        p = os.path.join(root, rel)
        os.makedirs(os.path.dirname(p), exist_ok=True)
        if os.path.lexists(p):
            os.unlink(p)
        os.symlink(target, p)


# --------------------------------------------------------------------------
# reference model: which files, which editions
# --------------------------------------------------------------------------


def closure(model, start):
    seen, todo = [], list(start)
    while todo:
        n = todo.pop(0)
        if n in seen:
            continue
        seen.append(n)
        todo += model["packages"][n]["deps"]
    return seen


def files_of(model, names):
    """{path relative to the case root: sorted list of admissible editions}."""
    out = {}
    for n in names:
        for path, ed in model["packages"][n]["targets"]:
            out.setdefault(path, set()).add(ed)
    return {k: sorted(v) for k, v in sorted(out.items())}


def package_at(model, rel_dir):
    """The package whose directory is the nearest ancestor-or-self of rel_dir."""
    best = None
    for n, p in model["packages"].items():
        d = p["dir"]
        if rel_dir == d or rel_dir.startswith(d + "/"):
            if best is None or len(d) > len(model["packages"][best]["dir"]):
                best = n
    return best


def members(model):
    return [n for n, p in model["packages"].items() if p["member"]]


# --- selection alphabet ----------------------------------------------------

S_QUICK = [
    "none", "p-cur", "p-other", "p-cur-other", "p-other-cur", "p-unknown", "p-cur-unknown", "all",
    "mp-cur", "mp-cur-rel", "mp-other", "mp-cur+p-other", "mp-cur+all", "mp-missing", "mp-notcargo", "mp-dir",
]
S_THOROUGH = S_QUICK + ["package-long", "p-multi", "mp-eq", "mp-garbage", "mp-xcargo", "mp-root", "all+mp-other"]

C_ALL = ["pkg-cur", "src-cur", "pkg-other", "root"]


def resolve_cwd(model, c):
    """-> cwd relative to the case root, or None when the value does not exist for this workspace."""
    P = model["packages"]
    if c == "pkg-cur":
        return P[model["cur"]]["dir"]
    if c == "src-cur":
        for path, _ in P[model["cur"]]["targets"]:
            d = os.path.dirname(path)
            if d != P[model["cur"]]["dir"] and d.startswith(P[model["cur"]]["dir"] + "/"):
                return d
        return None
    if c == "pkg-other":
        return P[model["other"]]["dir"] if model["other"] and P[model["other"]]["dir"] != model["ws_root"] else None
    if c == "root":
        return model["ws_root"] if P[model["cur"]]["dir"] != model["ws_root"] else None
    raise KeyError(c)


def resolve_selection(model, s, cwd_rel):
    """-> (argv tokens with {R} for the case root, selection) or None when not applicable / excluded.

    selection: ("error",) | ("names", [package names of the model])
    """
    P = model["packages"]
    cur, oth = model["cur"], model["other"]
    man = lambda n: "{R}/" + P[n]["dir"] + "/Cargo.toml"  # noqa: E731
    need_other = s in ("p-other", "p-cur-other", "p-other-cur", "mp-other", "mp-cur+p-other", "p-multi", "all+mp-other")
    if need_other and not oth:
        return None
    if s == "none":
        if cwd_rel == model["ws_root"] and model["shape"] == "virtual":
            return [], ("names", members(model))
        if cwd_rel == model["ws_root"] and model["shape"] == "rooted":
            return None  # excluded: ambiguous "current package" (DESIGN.md C18)
        return [], ("names", [package_at(model, cwd_rel)])
    if s == "p-cur":
        return ["-p", cur], ("names", [cur])
    if s == "package-long":
        return ["--package", cur], ("names", [cur])
    if s == "p-other":
        return ["-p", oth], ("names", [oth])
    if s == "p-cur-other":
        return ["-p", cur, "-p", oth], ("names", [cur, oth])
    if s == "p-other-cur":
        return ["-p", oth, "-p", cur], ("names", [cur, oth])
    if s == "p-multi":
        return ["-p", cur, oth], ("names", [cur, oth])
    if s == "p-unknown":
        return ["-p", "nosuchpkg"], ("error",)
    if s == "p-cur-unknown":
        return ["-p", cur, "-p", "nosuchpkg"], ("error",)
    allsel = ("names", closure(model, members(model)))
    if s == "all":
        return ["--all"], allsel
    if s == "mp-cur":
        return ["--manifest-path", man(cur)], ("names", [cur])
    if s == "mp-eq":
        return ["--manifest-path=" + man(cur)], ("names", [cur])
    if s == "mp-cur-rel":
        rel = os.path.relpath(P[cur]["dir"] + "/Cargo.toml", cwd_rel)
        return ["--manifest-path", rel], ("names", [cur])
    if s == "mp-other":
        return ["--manifest-path", man(oth)], ("names", [oth])
    if s == "mp-root":
        if model["shape"] != "rooted":
            return None  # virtual manifest: excluded (DESIGN.md C18); plain: same as mp-cur
        return ["--manifest-path", man("r")], ("names", ["r"])
    if s == "mp-cur+p-other":
        return ["--manifest-path", man(cur), "-p", oth], ("names", [oth])
    if s == "mp-cur+all":
        return ["--manifest-path", man(cur), "--all"], allsel
    if s == "all+mp-other":
        return ["--all", "--manifest-path", man(oth)], allsel
    if s == "mp-missing":
        return ["--manifest-path", "{R}/" + model["ws_root"] + "/nosuchdir/Cargo.toml"], ("error",)
    if s == "mp-notcargo":
        return ["--manifest-path", "{R}/" + P[cur]["targets"][0][0]], ("error",)
    if s == "mp-dir":
        return ["--manifest-path", "{R}/" + P[cur]["dir"]], ("error",)
    if s == "mp-garbage":
        return ["--manifest-path", "{R}/garbage/Cargo.toml"], ("error",)
    if s == "mp-xcargo":
        return ["--manifest-path", "{R}/" + P[cur]["dir"] + "/xCargo.toml"], ("error",)
    raise KeyError(s)


# --- pass-through alphabet -------------------------------------------------
# name -> (flags before `--`, args after `--`, translated args that must reach rustfmt,
#          translated args that may or may not be repeated, usage error?)
P_ALL = {
    "none": ([], [], [], [], False),
    "dd-check": ([], ["--check"], [], [], False),
    "check": (["--check"], [], [["--check"]], [], False),
    "mf-short": (["--message-format", "short"], [], [["-l"]], [], False),
    "mf-json": (["--message-format", "json"], [], [["--emit", "json"]], [], False),
    "mf-human": (["--message-format", "human"], [], [], [], False),
    "mf-bad": (["--message-format", "bad"], [], [], [], True),
    "dd-l": ([], ["-l"], [], [], False),
    "check+dd-check": (["--check"], ["--check"], [], [["--check"]], False),
    "mf-short+dd-l": (["--message-format", "short"], ["-l"], [], [["-l"]], False),
    "dd-multi": ([], ["--config", "max_width=80", "--unstable-features"], [], [], False),
    "mf-eq-json": (["--message-format=json"], [], [["--emit", "json"]], [], False),
    "check+mf-short": (["--check", "--message-format", "short"], [], [["--check"], ["-l"]], [], False),
}
P_ORDER = list(P_ALL)


# --- stand-in scripts ------------------------------------------------------


def x_alphabet(eds):
    """Scripts for a workspace whose packages use the sorted editions `eds`: {edition: status}."""
    out = [{}]
    for e in eds:
        for st in ("1", "2", "KILL"):
            out.append({e: st})
    if len(eds) >= 2:
        e0, e1 = eds[0], eds[1]
        for s0, s1 in (("KILL", "1"), ("1", "KILL"), ("KILL", "KILL"), ("2", "1")):
            out.append({e0: s0, e1: s1})
    absent = [e for e in EDITIONS if e not in eds]
    if absent:
        out.append({absent[0]: "1"})
    return out


def x_name(script):
    return ",".join(f"{e}:{s}" for e, s in sorted(script.items())) or "ok"


# --------------------------------------------------------------------------
# case construction
# --------------------------------------------------------------------------


def w_name(mods):
    return ",".join(f"{k}={mods[k]}" for k, _ in W_DIMS if k in mods) or "base"


def case_id(mods, s, c, p, script):
    return f"W[{w_name(mods)}] S[{s}] C[{c}] P[{p}] X[{x_name(script)}]"


def model_editions(model):
    return sorted({e for p in model["packages"].values() for _, e in p["targets"]})


def plan_case(model, s, c, p, script):
    """-> dict describing one executable case, or None if the combination does not exist."""
    cwd_rel = resolve_cwd(model, c)
    if cwd_rel is None:
        return None
    r = resolve_selection(model, s, cwd_rel)
    if r is None:
        return None
    s_args, sel = r
    pre, raw, required, optional, p_err = P_ALL[p]
    argv = ["fmt"] + s_args + pre + (["--"] + raw if raw else [])
    err = sel[0] == "error" or p_err
    exp_files = {} if err else files_of(model, sel[1])
    return {
        "id": case_id(model["mods"], s, c, p, script),
        "sym": {"mods": model["mods"], "s": s, "c": c, "p": p, "x": script},
        "argv": argv,
        "cwd": cwd_rel,
        "script": script,
        "expected": {
            "error": err,
            "packages": None if err else sel[1],
            "files": exp_files,
            "pt": {"raw": raw, "required": required, "optional": optional},
        },
    }


def enumerate_cases(maxdev, s_list):
    """Every case with <= maxdev deviations, simplest first. Yields (d, mods, s, c, p, xi)."""
    mods_all = [(k, v) for k, vals in W_DIMS for v in vals[1:]]
    out = []
    for k in range(0, maxdev + 1):
        for combo in itertools.combinations(mods_all, k):
            if len({d for d, _ in combo}) != k:
                continue
            mods = dict(combo)
            try:
                model = build_ws(mods)
            except Invalid:
                continue
            xs = x_alphabet(model_editions(model))
            dims = [
                [("s", v) for v in s_list[1:]],
                [("c", v) for v in C_ALL[1:]],
                [("p", v) for v in P_ORDER[1:]],
                [("x", i) for i in range(1, len(xs))],
            ]
            budget = maxdev - k
            for j in range(0, min(budget, 4) + 1):
                for which in itertools.combinations(range(4), j):
                    for vals in itertools.product(*[dims[w] for w in which]):
                        sel = {"s": s_list[0], "c": C_ALL[0], "p": P_ORDER[0], "x": 0}
                        sel.update(dict(vals))
                        # `--all` over a path dependency that lives in another workspace / shares its package
                        # name with another one runs into two known defects of get_targets_recursive whatever
                        # the working directory, pass-through arguments or rustfmt outcome are: those two
                        # workspaces are explored under --all with the default C / P / X and no further
                        # workspace deviation (the listed representatives), and fully without --all.
                        if mods.get("ext") in ("x-in-ws", "same-name") and "all" in sel["s"]:
                            if k != 1 or (sel["c"], sel["p"], sel["x"]) != (C_ALL[0], P_ORDER[0], 0):
                                continue
                        out.append((k + j, combo, sel["s"], sel["c"], sel["p"], sel["x"]))
    out.sort(key=lambda t: t[0])  # stable: simplest first, enumeration order inside a level
    return out


# --------------------------------------------------------------------------
# running and judging one case
# --------------------------------------------------------------------------

_ENV = {}


def subject_env(log, script):
    extra = dict(_ENV)
    extra["C18_LOG"] = log
    for e, st in script.items():
        extra["C18_ST_" + e] = st
    return common.base_env(extra=extra)


def read_log(log):
    if not os.path.exists(log):
        return []
    out = []
    with open(log, "rb") as fh:
        for line in fh.read().decode("utf-8", "surrogateescape").splitlines():
            if line:
                out.append(json.loads(line, strict=False))
    return out


def execute(R, case, log):
    if os.path.exists(log):
        os.unlink(log)
    argv = [common.CARGO_FMT] + [a.replace("{R}", R) for a in case["argv"]]
    rc, out, err = common.run(argv, cwd=os.path.join(R, case["cwd"]), env=subject_env(log, case["script"]), timeout=60)
    return rc, out, err, read_log(log)


def is_subseq(small, big):
    it = iter(big)
    return all(any(x == y for y in it) for x in small)


def judge(R, case, rc, stderr, invocations):
    """-> list of (what, message). Empty list: the property held on this case."""
    exp = case["expected"]
    cwd = os.path.join(R, case["cwd"])
    probs = []
    if rc == -999:
        return [("timeout", "cargo-fmt did not terminate within 60 s")]
    if exp["error"]:
        if invocations:
            probs.append(("formatted-despite-usage-error", f"{len(invocations)} rustfmt invocation(s) although the selection is an error"))
        if rc == 0:
            probs.append(("exit-0-on-usage-error", "exit status 0 for an unknown package / unusable manifest path / invalid --message-format"))
        return probs

    script = case["script"]
    seen = Counter()
    editions_of = {}
    any_failed = False
    for i, args in enumerate(invocations):
        args = list(args)
        # --edition E
        eds, rest, j = [], [], 0
        while j < len(args):
            if args[j] == "--edition" and j + 1 < len(args):
                eds.append(args[j + 1])
                j += 2
            elif args[j].startswith("--edition="):
                eds.append(args[j][len("--edition="):])
                j += 1
            else:
                rest.append(args[j])
                j += 1
        files, opts = [], []
        for a in rest:
            if os.path.isabs(a) or (not a.startswith("-") and os.path.exists(os.path.join(cwd, a))):
                files.append(os.path.realpath(os.path.join(cwd, a)))
            else:
                opts.append(a)
        if len(eds) != 1:
            probs.append(("edition-flag-missing-or-repeated", f"invocation {i}: --edition given {len(eds)} times: {args}"))
        ed = eds[0] if eds else None
        if ed is not None and script.get(ed, "0") != "0":
            any_failed = True
        if not files:
            probs.append(("invocation-without-files", f"invocation {i} names no file: {args}"))
        for f in files:
            seen[f] += 1
            editions_of.setdefault(f, []).append(ed)
        # pass-through
        pt = exp["pt"]
        norm = []
        for a in opts:
            norm += ["--emit", "json"] if a == "--emit=json" else [a]
        need = Counter(pt["raw"])
        for g in pt["required"]:
            need.update(g)
        ok = False
        for r in range(len(pt["optional"]) + 1):
            for sub in itertools.combinations(pt["optional"], r):
                c = Counter(need)
                for g in sub:
                    c.update(g)
                if c == Counter(norm):
                    ok = True
        if ok and not is_subseq(pt["raw"], norm):
            ok = False
        for g in pt["required"]:
            if len(g) == 2 and not any(norm[k : k + 2] == g for k in range(len(norm))):
                ok = False
        if not ok:
            probs.append(("pass-through-mismatch", f"invocation {i}: options {opts}; expected after-`--` args {pt['raw']} in order plus {pt['required']} (optionally {pt['optional']})"))

    want = {os.path.realpath(os.path.join(R, p)): eds for p, eds in exp["files"].items()}
    if not invocations and rc != 0:
        # nothing was formatted and cargo-fmt said so: one finding, not "missing files" plus "odd exit status"
        first = stderr.decode("utf-8", "replace").strip().splitlines()[:1]
        return [("valid-selection-rejected", f"exit status {rc}, rustfmt never invoked ({first[0] if first else 'no message'}); expected: " + ", ".join(exp["files"]))]
    missing = sorted(set(want) - set(seen))
    extra = sorted(set(seen) - set(want))
    if missing:
        probs.append(("target-not-formatted", "not passed to rustfmt: " + ", ".join(os.path.relpath(m, R) for m in missing)))
    if extra:
        probs.append(("unselected-file-formatted", "passed to rustfmt but not a root file of a selected package: " + ", ".join(os.path.relpath(m, R) for m in extra)))
    twice = sorted(f for f, n in seen.items() if n > 1)
    if twice:
        probs.append(("file-formatted-twice", ", ".join(os.path.relpath(m, R) for m in twice)))
    wrong = []
    for f, eds in sorted(editions_of.items()):
        if f in want:
            for e in eds:
                if e is not None and e not in want[f]:
                    wrong.append(f"{os.path.relpath(f, R)}: --edition {e}, declared {'/'.join(want[f])}")
    if wrong:
        probs.append(("wrong-edition", "; ".join(wrong)))
    if any_failed and rc == 0:
        probs.append(("exit-0-despite-failed-rustfmt", "a rustfmt invocation did not succeed (script " + x_name(script) + ") but cargo-fmt exited 0"))
    if not any_failed and rc != 0:
        probs.append(("nonzero-exit-without-failed-rustfmt", f"every rustfmt invocation succeeded but cargo-fmt exited {rc}"))
    # at most one entry per `what`
    out, names = [], set()
    for w, msg in probs:
        if w not in names:
            names.add(w)
            out.append((w, msg))
    return out


# --------------------------------------------------------------------------
# validation of the reference model against `cargo metadata` (machinery check)
# --------------------------------------------------------------------------


class Machinery(Exception):
    pass


def cargo_metadata(cwd):
    rc, out, err = common.run(["cargo", "metadata", "--offline", "--no-deps", "--format-version", "1"], cwd=cwd, env=common.base_env(extra=_ENV))
    if rc != 0:
        raise Machinery(f"cargo metadata failed in {cwd}: {err.decode('utf-8', 'replace')[-600:]}")
    return json.loads(out)


def validate_model(R, model):
    """The generated manifests must mean to cargo what the model says they mean."""
    P = model["packages"]
    roots = [model["ws_root"]] + [p["dir"] for p in P.values() if not p["member"]]
    seen = {}
    for d in roots:
        md = cargo_metadata(os.path.join(R, d))
        for pkg in md["packages"]:
            pdir = os.path.relpath(os.path.dirname(pkg["manifest_path"]), R)
            seen[pdir] = sorted((os.path.relpath(os.path.realpath(t["src_path"]), R), t["edition"]) for t in pkg["targets"])
        if d == model["ws_root"]:
            got = sorted(os.path.relpath(os.path.dirname(p["manifest_path"]), R) for p in md["packages"])
            want = sorted(p["dir"] for p in P.values() if p["member"])
            if got != want:
                raise Machinery(f"W[{w_name(model['mods'])}]: cargo sees members {got}, model says {want}")
    for n, p in P.items():
        want = sorted((os.path.relpath(os.path.realpath(os.path.join(R, path)), R), ed) for path, ed in p["targets"])
        if seen.get(p["dir"]) != want:
            raise Machinery(f"W[{w_name(model['mods'])}] package {n}: cargo sees targets {seen.get(p['dir'])}, model says {want}")


# --------------------------------------------------------------------------
# worker
# --------------------------------------------------------------------------


def run_chunk(job):
    """job: (chunk index, scratch root, mods, [(s, c, p, xi)], validate?) -> list of result dicts."""
    idx, sroot, combo, items, validate = job
    mods = dict(combo)
    model = build_ws(mods)
    R = os.path.join(sroot, f"k{idx}")
    os.makedirs(R)
    results = []
    try:
        materialise(R, model["files"], model["symlinks"])
        if validate:
            validate_model(R, model)
        xs = x_alphabet(model_editions(model))
        ntargets = sum(len(p["targets"]) for p in model["packages"].values())
        log = os.path.join(sroot, f"log{idx}")
        for s, c, p, xi in items:
            case = plan_case(model, s, c, p, xi if isinstance(xi, dict) else xs[xi])
            if case is None:
                continue
            rc, out, err, inv = execute(R, case, log)
            probs = judge(R, case, rc, err, inv)
            failed = 0
            for a in inv:
                ed = None
                for k, x in enumerate(a):
                    if x == "--edition" and k + 1 < len(a):
                        ed = a[k + 1]
                    elif x.startswith("--edition="):
                        ed = x[len("--edition="):]
                failed += case["script"].get(ed, "0") != "0"
            res = {
                "id": case["id"],
                "ntargets": ntargets,
                "invocations": len(inv),
                "expected_error": case["expected"]["error"],
                "nfiles": len(case["expected"]["files"]),
                "scripted_failure_hit": failed > 0,
                "problems": probs,
                "s": s, "c": c, "p": p,
            }
            if probs:
                rc2, out2, err2, inv2 = execute(R, case, log)
                probs2 = judge(R, case, rc2, err2, inv2)
                if [w for w, _ in probs2] != [w for w, _ in probs] or rc2 != rc:
                    res["problems"] = [("nondeterministic", f"first run: rc={rc} {[w for w, _ in probs]}; second run: rc={rc2} {[w for w, _ in probs2]}")]
                res["detail"] = detail_of(R, model, case, rc, out, err, inv, res["problems"])
            elif not mods and len(results) < 3:
                res["sample"] = detail_of(R, model, case, rc, out, err, inv, [], with_tree=not results)
            elif len(mods) == 1 and (s, c, p) == ("all", "pkg-cur", "none") and not case["script"]:
                res["sample"] = detail_of(R, model, case, rc, out, err, inv, [], with_tree=False)
            results.append(res)
    finally:
        shutil.rmtree(R, ignore_errors=True)
    return results


def detail_of(R, model, case, rc, out, err, inv, probs, with_tree=True):
    strip = lambda s: s.replace(R, "{R}")  # noqa: E731
    d = {
        "case": case["sym"],
        "argv": ["cargo-fmt"] + case["argv"],
        "cwd": case["cwd"],
        "standin_status_by_edition": case["script"],
        "expected": case["expected"],
        "observed": {
            "exit_status": rc,
            "stderr_head": strip(err.decode("utf-8", "replace"))[:400],
            "stdout_head": strip(out.decode("utf-8", "replace"))[:200],
            "rustfmt_invocations": [[strip(a) for a in args] for args in inv],
        },
        "problems": [list(p) for p in probs],
    }
    if with_tree:
        d["tree"] = {"files": model["files"], "symlinks": model["symlinks"]}
    return d


# --------------------------------------------------------------------------
# environment
# --------------------------------------------------------------------------


def setup_env(scratch):
    """cargo of the pinned toolchain on PATH, private CARGO_HOME, stand-in script."""
    try:
        cargo = subprocess.run(["rustup", "which", "cargo"], cwd=common.REPO, capture_output=True, text=True).stdout.strip()
    except OSError:
        cargo = ""
    if not cargo or not os.path.exists(cargo):
        cargo = shutil.which("cargo") or ""
        if cargo:
            cargo = os.path.realpath(cargo)
    if not cargo or os.path.basename(cargo) != "cargo":
        print("machinery error: cannot locate the toolchain's cargo (rustup which cargo)", file=sys.stderr)
        sys.exit(2)
    d = scratch.root
    while True:
        for n in ("Cargo.toml", ".cargo/config.toml", ".cargo/config"):
            if os.path.exists(os.path.join(d, n)):
                print(f"machinery error: {d}/{n} exists above the scratch root", file=sys.stderr)
                sys.exit(2)
        nd = os.path.dirname(d)
        if nd == d:
            break
        d = nd
    cargo_home = scratch.fresh("cargo_home")
    standin = scratch.path("rustfmt-standin")
    with open(standin, "w") as fh:
        fh.write(STANDIN)
    os.chmod(standin, 0o755)
    _ENV.update(
        {
            "PATH": os.path.dirname(cargo) + ":/usr/bin:/bin",
            "CARGO_HOME": cargo_home,
            "CARGO_NET_OFFLINE": "true",
            "CARGO_TERM_COLOR": "never",
            "RUSTFMT": standin,
        }
    )
    # self-test of the stand-in: argv recording, scripted statuses, SIGKILL
    log = scratch.path("selftest.log")
    env = subject_env(log, {"2018": "2", "2021": "KILL"})
    r0 = common.run([standin, "/x/y.rs", "--edition", "2015", 'q"\\'], env=env)[0]
    r1 = common.run([standin, "--edition", "2018"], env=env)[0]
    r2 = common.run([standin, "--edition=2021"], env=env)[0]
    if (r0, r1, r2) != (0, 2, -9) or read_log(log) != [["/x/y.rs", "--edition", "2015", 'q"\\'], ["--edition", "2018"], ["--edition=2021"]]:
        print(f"machinery error: stand-in self-test failed: {(r0, r1, r2)} {read_log(log)}", file=sys.stderr)
        sys.exit(2)


# --------------------------------------------------------------------------
# main
# --------------------------------------------------------------------------

def process_map(fn, items):
    """Deterministic-order parallel map over forked worker processes.

    (common.parallel_map uses threads; starting ~3 subprocesses per case from
    one interpreter serialises on the GIL, forked workers scale with the cores.)
    """
    import multiprocessing
    from concurrent.futures import ProcessPoolExecutor

    jobs = int(os.environ.get("VERIF_JOBS", "0") or 0) or (os.cpu_count() or 8)
    with ProcessPoolExecutor(max_workers=jobs, mp_context=multiprocessing.get_context("fork")) as ex:
        return list(ex.map(fn, items))


RULE = "the generated workspace (members plus path dependencies) has >= 2 targets; distinct = distinct case id W[..] S[..] C[..] P[..] X[..]"
ASSUMPTIONS = [
    "the installed `cargo metadata` is trusted; every generated workspace is cross-checked against it (members, target paths, editions) and a disagreement is a machinery error",
    "no selection flag with cwd at the root of a virtual workspace selects every member (cargo's rule for virtual workspaces)",
    "no selection flag elsewhere selects the package whose directory is the nearest ancestor of cwd; --manifest-path M without -p/--all selects the package of M",
    "two targets sharing one source path with different editions: either declared edition is accepted",
    "excluded as ambiguous: no selection flag at the root of a rooted workspace; --manifest-path naming a virtual manifest",
    "--message-format short reaches rustfmt as -l, json as --emit json, human as nothing; an invalid value is a usage error (cargo fmt --help)",
    "a translated flag (--check, -l) that is also given after `--` may reach rustfmt once or twice",
]


def main():
    if len(sys.argv) >= 3 and sys.argv[1] == "--replay":
        return replay(sys.argv[2])
    common.require_bins(common.CARGO_FMT)
    run = common.Run("C18", "exploration", RULE, ASSUMPTIONS)
    maxdev = 3 if run.thorough else 2
    s_list = S_THOROUGH if run.thorough else S_QUICK
    with common.Scratch("c18") as scratch:
        setup_env(scratch)
        cases = enumerate_cases(maxdev, s_list)
        # chunks: consecutive cases of one workspace (same deviation level), at most 24 per chunk
        jobs, validated = [], set()
        for (d, combo), grp in itertools.groupby(cases, key=lambda t: (t[0], t[1])):
            grp = [(s, c, p, x) for _, _, s, c, p, x in grp]
            for i in range(0, len(grp), 24):
                jobs.append((len(jobs), scratch.root, combo, grp[i : i + 24], combo not in validated))
                validated.add(combo)
        try:
            chunks = process_map(run_chunk, jobs)
        except Machinery as e:
            print(f"machinery error: {e}", file=sys.stderr)
            sys.exit(2)

        seen_ids = set()
        interesting = 0
        for res in itertools.chain.from_iterable(chunks):
            if res["id"] in seen_ids:
                continue
            seen_ids.add(res["id"])
            run.evaluated()
            run.count("rustfmt_invocations", res["invocations"])
            run.count("cases_S=" + res["s"])
            run.count("cases_C=" + res["c"])
            run.count("cases_P=" + res["p"])
            if res["expected_error"]:
                run.count("usage_error_cases")
            if res["scripted_failure_hit"]:
                run.count("cases_with_a_failing_rustfmt_invocation")
            if res["nfiles"] >= 2:
                run.count("cases_expecting_>=2_files")
            if res["ntargets"] >= 2:
                run.nontrivial_case(res["id"])
                if res["invocations"] >= 1:
                    interesting += 1
            if "sample" in res:
                run.sample(res["sample"])
            for what, msg in res["problems"]:
                d = dict(res["detail"])
                d["message"] = msg
                run.violation(res["id"], what, d)
        run.count("workspaces", len(validated))
        run.count("cases_with_>=1_recorded_invocation_and_>=2_targets", interesting)
        run.extra["bounds"] = {
            "max_deviations": maxdev,
            "workspace_dimensions": {k: v for k, v in W_DIMS},
            "S": s_list, "C": C_ALL, "P": P_ORDER,
            "X": "per workspace: ok; each edition of the workspace x {1,2,KILL}; 4 two-group scripts on its two lowest editions; one edition not in the workspace -> 1",
        }
        if interesting < 2:
            print("[C18] vacuous run: fewer than 2 cases reached the stand-in", file=sys.stderr)
            sys.exit(2)
        run.finish()


def replay(path):
    rec = json.load(open(path))
    d = rec["detail"]
    common.require_bins(common.CARGO_FMT)
    with common.Scratch("c18r") as scratch:
        setup_env(scratch)
        sym = d["case"]
        model = build_ws(sym["mods"])
        tree = d.get("tree") or {"files": model["files"], "symlinks": model["symlinks"]}
        R = scratch.fresh("case")
        materialise(R, tree["files"], tree["symlinks"])
        case = {"id": rec["case"], "sym": sym, "argv": d["argv"][1:], "cwd": d["cwd"], "script": d["standin_status_by_edition"], "expected": d["expected"]}
        print(f"property C18  case {rec['case']}\nrecorded violation: {rec['what']}")
        print("--- tree (relative to the scratch case root {R})")
        for rel in sorted(tree["files"]):
            if rel.endswith("Cargo.toml"):
                print(f"# {rel}")
                print("    " + tree["files"][rel].replace("\n", "\n    ").rstrip())
            else:
                print(f"# {rel}  ({len(tree['files'][rel])} bytes)")
        for rel, t in sorted(tree["symlinks"].items()):
            print(f"# {rel} -> {t}")
        print(f"--- cwd   {{R}}/{d['cwd']}")
        print("--- argv  " + " ".join(d["argv"]))
        print(f"--- RUSTFMT = recording stand-in; exit status by --edition: {d['standin_status_by_edition'] or 'always 0'}")
        rc, out, err, inv = execute(R, case, scratch.path("replay.log"))
        print("--- expected")
        if d["expected"]["error"]:
            print("    usage error: non-zero exit, rustfmt never invoked")
        else:
            for f, eds in d["expected"]["files"].items():
                print(f"    {f}  --edition {'|'.join(eds)}")
            pt = d["expected"]["pt"]
            print(f"    pass-through: {pt['raw']} + {pt['required']} (optional {pt['optional']})")
            failing = {e: s for e, s in d["standin_status_by_edition"].items() if s != "0"}
            print(f"    exit status: non-zero iff an invocation with edition in {sorted(failing)} happens" if failing else "    exit status: 0")
        print(f"--- observed: exit status {rc}")
        for args in inv:
            print("    rustfmt " + " ".join(a.replace(R, "{R}") for a in args))
        if err.strip():
            print("    stderr: " + err.decode("utf-8", "replace").replace(R, "{R}").strip().splitlines()[0])
        probs = judge(R, case, rc, err, inv)
        print("--- verdict")
        if not probs:
            print("    property holds on this case now")
            sys.exit(0)
        for w, msg in probs:
            print(f"    {w}: {msg}")
        sys.exit(1)


if __name__ == "__main__":
    main()
