#!/usr/bin/env python3
"""C16 (CLI half) — the real binary ends with exit status 0 or 1 whatever is wrong with the files it reaches.

The in-process half (harness/src/props/c16.rs) drives the library on one text. What only the binary can
show is containment across FILES: a fault in an out-of-line module, in a `cfg_attr(path)` candidate, in a file
of an `ignore` list, reached through the module resolver with its own parser sessions.

Enumerated: every module-tree shape of C05's catalogue x every content fault (lexer-level: unterminated
string / block comment, NUL byte, invalid UTF-8; parser-level: unclosed delimiter, recoverable error, the
parser-panic inputs of tests/parser) at every file position x {files mode on a scratch copy, --check,
--emit stdout, --emit json} x {root named alone, a healthy root before it}.

Oracle: the process exits by itself with status 0 or 1; stderr has no panic / ICE banner.

Appends its counts to the evidence written by the in-process half (vh run C16).
"""
import json
import os
import shutil
import sys

sys.path.insert(0, os.path.dirname(os.path.abspath(__file__)))
import common
from common import Scratch, base_env

import c05  # shapes, faults and the tree builder (pure data and helpers; importing runs nothing)

MODES = [("files", []), ("check", ["--check"]), ("stdout", ["--emit", "stdout"]), ("json", ["--emit", "json"])]
THOROUGH = (os.environ.get("VERIF_TIER") or (sys.argv[1] if len(sys.argv) > 1 else "quick")) == "thorough"
BANNERS = ("panicked at", "internal compiler error", "the compiler unexpectedly panicked", "stack backtrace", "RUST_BACKTRACE")


def cases(thorough):
    out = []
    content = dict(c05.CONTENT_FAULTS)
    if thorough:
        content.update(c05.CONTENT_FAULTS_EXTRA)
    for shape in c05.SHAPES:
        for rel in shape.files:
            for kind in content:
                out.append((shape.id, {"kind": kind, "at": rel}))
    return out


def run_case(sc, case):
    shape_id, fault = case
    shape = c05.SHAPE_BY_ID[shape_id]
    built = c05.build_faulty_tree(shape, [fault])
    if built is None:
        return case, 0, []
    entries, extra, _outside, _needles = built
    problems = []
    n = 0
    for mode, margs in (MODES if THOROUGH else MODES[:2]):
        for arrangement in (("F", "H,F") if THOROUGH else ("F",)):
            base = sc.path("w-" + common.sha(repr((case, mode, arrangement))))
            shutil.rmtree(base, ignore_errors=True)
            os.makedirs(os.path.join(base, "F"))
            c05.materialise(os.path.join(base, "F"), entries)
            roots = []
            if "H" in arrangement:
                c05.materialise(os.path.join(base, "H"), {k: ["file", v.encode()] for k, v in c05.HEALTHY.items()})
                roots.append("H/lib.rs")
            roots.append("F/" + shape.root)
            rc, out, err = common.run([common.RUSTFMT, "--color", "never"] + margs + extra + roots, cwd=base, env=base_env(home=base))
            n += 1
            text = err.decode("utf-8", "replace")
            what = None
            if rc not in (0, 1):
                what = f"exit status {rc}"
            elif any(b in text for b in BANNERS):
                what = "panic banner on stderr"
            if what:
                problems.append((f"shape={shape_id} fault={fault['kind']}@{fault['at']} mode[{mode}] roots[{arrangement}]", what,
                                 {"exit": rc, "stderr": text[-1200:], "argv": margs + extra + roots, "tree": c05.entries_json(entries)}))
            shutil.rmtree(base, ignore_errors=True)
    return case, n, problems


def main():
    if len(sys.argv) > 2 and sys.argv[1] == "--replay":
        rep = json.load(open(sys.argv[2]))
        print("case:", rep["case"], "\nwhat:", rep["what"])
        d = rep["detail"]
        with Scratch("c16r") as sc:
            base = sc.path("r")
            os.makedirs(os.path.join(base, "F"))
            c05.materialise(os.path.join(base, "F"), c05.entries_from_json(d["tree"]))
            c05.materialise(os.path.join(base, "H"), {k: ["file", v.encode()] for k, v in c05.HEALTHY.items()})
            rc, out, err = common.run([common.RUSTFMT, "--color", "never"] + d["argv"], cwd=base, env=base_env(home=base))
            print("argv: rustfmt", " ".join(d["argv"]))
            print("tree F:", json.dumps(d["tree"], indent=1)[:3000])
            print("exit now:", rc, "(recorded:", d["exit"], ")")
            print("--- stderr now ---\n" + err.decode("utf-8", "replace")[-2000:])
        return
    common.require_bins(common.RUSTFMT)
    r = common.Run(
        "C16",
        "exploration",
        "CLI half: every module-tree shape of C05's catalogue (root only, children, chains, #[path], cfg_if, inline "
        "grandchild, cfg_attr(path) candidates, ignored broken module) x every content fault (unterminated string / "
        "block comment, NUL byte, invalid UTF-8, unclosed delimiter, recoverable error, the parser-panic inputs of "
        "tests/parser) at every file position x {files, --check} with the root alone (thorough: also --emit stdout, --emit json, and "
        "a healthy root named first): the binary exits by itself with status 0 or 1 and prints no panic banner. Non-trivial = the fault "
        "sits in a file other than the root.",
        ["exit status and stderr of the real binary, fully controlled environment"],
    )
    with Scratch("c16") as sc:
        cs = cases(r.thorough)
        results = common.parallel_map(lambda c: run_case(sc, c), cs)
        for (shape_id, fault), n, problems in results:
            r.evaluated(n)
            cid = f"shape={shape_id} fault={fault['kind']}@{fault['at']}"
            if fault["at"] != c05.SHAPE_BY_ID[shape_id].root:
                r.nontrivial_case(cid)
            for pc, what, detail in problems:
                r.violation(pc, what, detail)
            r.sample({"case": cid})
    ev_path = os.path.join(common.VERIF, "evidence", "C16.json")
    try:
        inproc = json.load(open(ev_path))
    except (OSError, ValueError):
        inproc = None
    if inproc and inproc.get("property_id") == "C16" and "cli" not in inproc.get("coverage", {}):
        cov = inproc["coverage"]
        r.extra["in_process_half"] = {k: cov.get(k) for k in ("evaluations", "distinct_nontrivial", "rule", "counters", "units", "exhaustive")}
        r.samples = (cov.get("samples") or [])[:3] + r.samples[:3]
        r.evaluations += int(cov.get("evaluations", 0))
        for i in range(int(cov.get("distinct_nontrivial", 0))):
            r.nontrivial.add(f"inproc-{i}")
        r.rule = cov.get("rule", "") + " || " + r.rule
        r.start -= float(inproc.get("wall_s", 0))
    r.extra["cli"] = True
    r.finish()


if __name__ == "__main__":
    main()
