"""C13: tree generator, reference resolver, gitignore matcher, plan enumeration.

Nothing in this file looks at rustfmt's sources or runs rustfmt.  The resolver
is the "Reference semantics" paragraph of DESIGN.md (### C13) and the Rust
reference's module rules:

* a declaring file in directory D is mod-rs-like (crate root, mod.rs, a file
  loaded through #[path]) or non-mod-rs (foo.rs -> contributes the component
  `foo`);
* `mod x;`  ->  <moddir>/x.rs | <moddir>/x/mod.rs, both present = error;
  in a non-mod-rs file, only if neither exists, D/x.rs | D/x/mod.rs (the
  fallback documented in tests/mod-resolver/issue-5198);
* `#[path = "p"] mod x;` -> <dir>/p where <dir> is the directory of the
  declaring file (without the non-mod-rs component) at file level and the
  inline-module directory inside inline modules; the loaded file is mod-rs-like;
* `mod i { .. }` -> directory <moddir>/i ; `#[path = "p"] mod i { .. }` ->
  <dir>/p ; both are mod-rs-like contexts (no fallback);
* cfg_if! / cfg_match!: declarations of all branches;
* `#[cfg_attr(c, path = "p")] mod x;`: the path file and the default file,
  whichever exist (none = error);
* a crate root with a sibling directory named like its stem has two readings
  (crate root / sub-module file); exactly one resolving = expectation, both
  resolving to different files = tree not generated.
"""

import copy
import itertools
import posixpath as pp
import re

ROOT = "src/main.rs"
ROOT_STEM = "main"

# --------------------------------------------------------------------------
# declaration AST + rendering (deliberately unformatted, always valid Rust)
# --------------------------------------------------------------------------


def ext(name, path=None, cfgattr=None, skip=False, cfg=None):
    return {"t": "ext", "name": name, "path": path, "cfgattr": cfgattr, "skip": skip, "cfg": cfg}


def inline(name, items, path=None, skip=False, cfg=None):
    return {"t": "inline", "name": name, "items": items, "path": path, "skip": skip, "cfg": cfg}


def cfgif(branches):
    return {"t": "cfgif", "branches": branches}


def cfgmatch(branches):
    return {"t": "cfgmatch", "branches": branches}


def _attrs(it):
    s = ""
    if it.get("skip"):
        s += "#[rustfmt::skip]  "
    if it.get("cfg"):
        s += "#[cfg(%s)]  " % it["cfg"]
    if it.get("path"):
        s += '#[path  =  "%s"]  ' % it["path"]
    if it.get("cfgattr"):
        s += '#[cfg_attr(c,  path = "%s")]  ' % it["cfgattr"]
    return s


def render_item(it):
    t = it["t"]
    if t == "ext":
        return _attrs(it) + "mod  %s ;" % it["name"]
    if t == "inline":
        return _attrs(it) + "mod  %s  {  %s  }" % (it["name"], "  ".join(render_item(c) for c in it["items"]))
    if t == "cfgif":
        a, b = it["branches"]
        return "cfg_if! { if #[cfg(a)] { %s } else { %s } }" % (
            " ".join(render_item(c) for c in a), " ".join(render_item(c) for c in b))
    if t == "cfgmatch":
        a, b = it["branches"]
        return "cfg_match! { cfg(a) => { %s } _ => { %s } }" % (
            " ".join(render_item(c) for c in a), " ".join(render_item(c) for c in b))
    raise ValueError(t)


def render_file(ast):
    lines = []
    if ast.get("generated"):
        # the marker stands on line `generated` (1-based), after plain comment lines
        for k in range(1, int(ast["generated"])):
            lines.append("// header line %d" % k)
        lines.append("// @generated")
    if ast.get("innerskip"):
        lines.append("#![rustfmt::skip]")
    for it in ast["items"]:
        lines.append(render_item(it))
    lines.append("fn  %s ( ) { }" % ast["fn"])
    return "\n".join(lines) + "\n"


# --------------------------------------------------------------------------
# file-system model
# --------------------------------------------------------------------------


class Fs:
    def __init__(self, files, dirs=()):
        self.files = set(files)
        self.dirs = {""}
        for f in list(files) + [d + "/x" for d in dirs]:
            d = pp.dirname(f)
            while d and d not in self.dirs:
                self.dirs.add(d)
                d = pp.dirname(d)

    def lookup(self, raw):
        """Resolve a '/'-separated path (may contain '..') like the OS would.
        Returns the normalised file path if it names an existing regular file."""
        cur = []
        comps = [c for c in raw.split("/") if c not in ("", ".")]
        for i, c in enumerate(comps):
            last = i == len(comps) - 1
            if c == "..":
                if not cur:
                    return None  # outside the tree: never generated
                cur.pop()
                continue
            cur.append(c)
            p = "/".join(cur)
            if last:
                return p if p in self.files else None
            if p not in self.dirs:
                return None
        return None

    def isdir(self, p):
        return p in self.dirs


def norm(p):
    return pp.normpath(p)


# --------------------------------------------------------------------------
# gitignore matcher for the generated pattern shapes
# --------------------------------------------------------------------------


def _glob_re(pat):
    out = ""
    i = 0
    while i < len(pat):
        if pat.startswith("**/", i):
            out += "(?:.*/)?"
            i += 3
        elif pat.startswith("/**", i) and i + 3 == len(pat):
            out += "/.*"
            i += 3
        elif pat[i] == "*":
            out += "[^/]*"
            i += 1
        elif pat[i] == "?":
            out += "[^/]"
            i += 1
        else:
            out += re.escape(pat[i])
            i += 1
    return re.compile("^" + out + "$")


def ignored(patterns, relpath):
    """gitignore semantics, patterns relative to the directory of rustfmt.toml (= tree top)."""
    parts = relpath.split("/")
    verdict = False
    for pat in patterns:
        neg = pat.startswith("!")
        if neg:
            pat = pat[1:]
        dir_only = pat.endswith("/")
        body = pat.rstrip("/")
        anchored = "/" in body
        body = body.lstrip("/")
        rx = _glob_re(body)
        hit = False
        for k in range(1, len(parts) + 1):
            is_dir = k < len(parts)
            if dir_only and not is_dir:
                continue
            cand = "/".join(parts[:k]) if anchored else parts[k - 1]
            if rx.match(cand):
                hit = True
                break
        if hit:
            verdict = not neg
    return verdict


# --------------------------------------------------------------------------
# reference resolver
# --------------------------------------------------------------------------


class Resolution:
    def __init__(self):
        self.reached = {}  # path -> set('care','dc')
        self.errors = []   # (declaring file, module name, why)
        self.unspec = []   # constructs the property text does not decide
        self.cands = set()  # alternative candidate locations (decoy sites)

    def key(self):
        return (tuple(sorted((p, tuple(sorted(f))) for p, f in self.reached.items())),
                tuple(sorted(self.errors)), tuple(sorted(self.unspec)))


def _default(fs, alt, name):
    d, rel, fallback = alt
    base = pp.join(d, rel) if rel else d
    c1 = fs.lookup(pp.join(base, name + ".rs"))
    c2 = fs.lookup(pp.join(base, name, "mod.rs"))
    if c1 and c2:
        return ("err", "both")
    if c1:
        return ("ok", c1, (pp.dirname(c1), name, True))
    if c2:
        return ("ok", c2, (pp.dirname(c2), None, True))
    if rel and fallback:
        c1 = fs.lookup(pp.join(d, name + ".rs"))
        c2 = fs.lookup(pp.join(d, name, "mod.rs"))
        if c1 and c2:
            return ("err", "both")
        if c1:
            return ("ok", c1, (pp.dirname(c1), name, True))
        if c2:
            return ("ok", c2, (pp.dirname(c2), None, True))
    return ("err", "missing")


def _bypath(fs, alt, p):
    d = alt[0]
    t = fs.lookup(pp.join(d, p))
    if t:
        return ("ok", t, (pp.dirname(t), None, True))
    return ("err", "missing")


def _resolve_ext(fs, alts, it):
    """-> ('ok', [(target, child_alt)]) | ('err', why) | ('unspec', why)"""
    per_alt = []
    for alt in alts:
        if it.get("path"):
            per_alt.append([_bypath(fs, alt, it["path"])])
        elif it.get("cfgattr"):
            a = _bypath(fs, alt, it["cfgattr"])
            b = _default(fs, alt, it["name"])
            if b[0] == "err" and b[1] == "both":
                return ("unspec", "cfg_attr with ambiguous default")
            oks = [r for r in (a, b) if r[0] == "ok"]
            per_alt.append(oks if oks else [("err", "missing")])
        else:
            per_alt.append([_default(fs, alt, it["name"])])
    if len(alts) == 1:
        rs = per_alt[0]
        if rs[0][0] == "err":
            return rs[0]
        return ("ok", [(r[1], r[2]) for r in rs])
    # a crate root with a sibling stem directory: two readings
    flat = [r for rs in per_alt for r in rs]
    if any(r[0] == "err" and r[1] == "both" for r in flat):
        return ("unspec", "one reading of the root is ambiguous")
    if it.get("cfgattr"):
        oksets = [[r for r in rs if r[0] == "ok"] for rs in per_alt]
        nonempty = [o for o in oksets if o]
        if not nonempty:
            return ("err", "missing")
        names = [sorted(r[1] for r in o) for o in nonempty]
        if len(nonempty) != len(oksets) or any(x != names[0] for x in names):
            return ("unspec", "root readings disagree")
        return ("ok", [(r[1], r[2]) for r in nonempty[0]])
    oks = {}
    for r in flat:
        if r[0] == "ok":
            oks.setdefault(r[1], r[2])
    if not oks:
        return ("err", "missing")
    if len(oks) > 1:
        return ("unspec", "both readings of the root resolve to different files")
    t, c = next(iter(oks.items()))
    return ("ok", [(t, c)])


def _enter_inline(alt, it):
    d, rel, _fb = alt
    if it.get("path"):
        return (norm(pp.join(d, it["path"])), None, True)
    base = pp.join(d, rel) if rel else d
    return (pp.join(base, it["name"]), None, True)


def resolve(asts, files, dirs=(), root=ROOT, want_cands=True):
    fs = Fs(files, dirs)
    R = Resolution()
    seen = set()

    def cands_for(it, F, modname, alts, chain, anc):
        """Alternative candidate locations of one declaration: name / path based files under the declaring
        file's directory, its stem and module-name directories, its parent, the current module directories,
        and the same directories of ALL ANCESTOR declaring files (anc), each with every inline-prefix.
        Returns the directories used, which become ancestors' directories for the loaded file."""
        D = pp.dirname(F)
        stem = pp.basename(F)[:-3]
        anc_dirs, anc_names = anc if anc else (frozenset(), frozenset())
        bases = {D, pp.join(D, stem), pp.dirname(D)} | set(anc_dirs)
        # a stale "relative" component inherited from an ancestor: <own dir>/<ancestor stem or module name>
        for nm in anc_names:
            bases.add(pp.join(D, nm))
            for a in alts:
                bases.add(pp.join(a[0], nm))
        if modname:
            bases.add(pp.join(D, modname))
        for a in alts:
            bases.add(a[0])
            if a[1]:
                bases.add(pp.join(a[0], a[1]))
        names = [it["name"] + ".rs", it["name"] + "/mod.rs"]
        for k in ("path", "cfgattr"):
            if it.get(k):
                names.append(it[k])
        used = set()
        for b in bases:
            for k in range(len(chain) + 1):
                for sub in (chain[:k], chain[k:]):
                    bb = norm(pp.join(b, *sub)) if sub else norm(b) if b else b
                    if bb.startswith("..") or bb.startswith("/"):
                        continue
                    used.add("" if bb == "." else bb)
                    for n in names:
                        p = norm(pp.join(bb, n))
                        if not p.startswith("..") and not p.startswith("/") and p.endswith(".rs"):
                            R.cands.add(p)
        names_down = set(anc_names) | {stem} | set(c for c in chain if "/" not in c and c != "..")
        if modname:
            names_down.add(modname)
        return (frozenset(used), frozenset(names_down))

    def visit_file(path, alts, dc, modname, anc=None):
        k = (path, tuple(alts), dc, anc)
        if k in seen:
            return
        seen.add(k)
        ast = asts.get(path, {"items": []})
        walk(ast["items"], alts, dc or bool(ast.get("innerskip")), path, modname, [], anc)

    def walk(items, alts, dc, F, modname, chain, anc):
        for it in items:
            t = it["t"]
            if t == "ext":
                child_anc = None
                if want_cands:
                    child_anc = cands_for(it, F, modname, alts, chain, anc)
                dcc = bool(dc or it.get("skip"))
                r = _resolve_ext(fs, alts, it)
                if r[0] == "err":
                    (R.unspec if dcc else R.errors).append((F, it["name"], r[1]))
                elif r[0] == "unspec":
                    R.unspec.append((F, it["name"], r[1]))
                else:
                    for target, calt in r[1]:
                        R.reached.setdefault(target, set()).add("dc" if dc else ("skipped" if it.get("skip") else "care"))
                        visit_file(target, [calt], dcc, it["name"], child_anc)
            elif t == "inline":
                comp = it["path"] if it.get("path") else it["name"]
                walk(it["items"], [_enter_inline(a, it) for a in alts], dc or it.get("skip"), F, modname, chain + [comp], anc)
            else:
                for br in it["branches"]:
                    walk(br, alts, dc, F, modname, chain, anc)

    d = pp.dirname(root)
    stem = pp.basename(root)[:-3]
    if fs.isdir(pp.join(d, stem)):
        alts = [(d, None, False), (d, stem, False)]
    else:
        alts = [(d, None, True)]
    R.reached.setdefault(root, set()).add("care")
    visit_file(root, alts, False, None)
    return R


def expectation(asts, files, dirs, cfg, mode, root=ROOT, want_cands=True):
    """cfg: {'ignore': [...], 'fgf': bool}; mode: {'skip_children','stdin',...}"""
    R = resolve(asts, files, dirs, root, want_cands)
    if R.unspec:
        return R, {"status": "unspecified", "why": R.unspec}

    def excluded(p):
        a = asts.get(p, {})
        if a.get("innerskip"):
            return True
        if cfg.get("ignore") and ignored(cfg["ignore"], p):
            return True
        # a file is generated when the marker stands within the first generated_marker_line_search_limit
        # (default 5) lines
        if a.get("generated") and cfg.get("fgf") is False and int(a["generated"]) <= cfg.get("gen_limit", 5):
            return True
        return False

    no_children = mode.get("skip_children") or mode.get("stdin")
    if no_children:
        status = "norc" if R.errors else "ok"
        formatted = [] if (mode.get("stdin") or excluded(root)) else [root]
        marks = asts[root].get("innerskip") or asts[root].get("generated")
        return R, {"status": status, "formatted": formatted, "dontcare": [],
                   "stdin_root_check": bool(mode.get("stdin")) and not marks and not cfg.get("ignore"),
                   "why": R.errors}
    if R.errors:
        return R, {"status": "error", "formatted": [], "dontcare": [], "why": R.errors}
    # flags: care = reached through a plain declaration; skipped = reached through `#[rustfmt::skip] mod x;`
    # (the file itself is plainly excluded); dc = beneath a skipped module (the property is silent).
    care = sorted(p for p, f in R.reached.items() if f == {"care"})
    dontcare = sorted(p for p, f in R.reached.items() if "dc" in f or f == {"care", "skipped"})
    return R, {"status": "ok", "formatted": [p for p in care if not excluded(p)], "dontcare": dontcare}


# --------------------------------------------------------------------------
# generator
# --------------------------------------------------------------------------

PLAIN_FORMS = ["file", "modrs", "fb_file", "fb_modrs", "path", "path_sub", "path_up",
               "cfgattr", "cfgattr_only", "cfgif", "cfgmatch"]
QUICK_WRAPPED = ["inl:file", "inl:modrs", "inl:path", "inl:path_up", "inlp:file", "inlp:path", "inl2:file"]
THOROUGH_WRAPPED = QUICK_WRAPPED + ["inl:path_sub", "inl:cfgif", "inl:cfgattr", "inl:cfgattr_only", "inl:cfgmatch",
                                    "inlp:modrs", "inlp:path_up", "inl2:path", "inl2:modrs"]
REL_FORMS = {"file", "fb_file", "cfgif", "cfgmatch", "cfgattr"}  # child file is <name>.rs => non-mod-rs


def inner_form(f):
    return f.split(":", 1)[1] if ":" in f else f


def gives_rel(f):
    return inner_form(f) in REL_FORMS


def place(site, form, name, out):
    """site=(dir, rel). Returns (top item, ext decl, target path|None, child site).
    Appends created files to out['files'] as (path, kind, fn) and dirs to out['dirs']."""
    d, rel = site
    md = pp.join(d, rel) if rel else d
    if ":" in form:
        w, f = form.split(":", 1)
        if w == "inl":
            it, decl, target, child = place((pp.join(md, "i_" + name), None), f, name, out)
            return inline("i_" + name, [it]), decl, target, child
        if w == "inlp":
            it, decl, target, child = place((pp.join(d, "ip_" + name), None), f, name, out)
            return inline("i_" + name, [it], path="ip_" + name), decl, target, child
        if w == "inl2":
            it, decl, target, child = place((pp.join(md, "i_" + name, "j_" + name), None), f, name, out)
            return inline("i_" + name, [inline("j_" + name, [it])]), decl, target, child
        raise ValueError(form)
    fn = "f_" + name
    if form == "file":
        t = pp.join(md, name + ".rs")
        decl = ext(name)
        out["files"].append((t, "node", fn))
        return decl, decl, t, (pp.dirname(t), name)
    if form == "modrs":
        t = pp.join(md, name, "mod.rs")
        decl = ext(name)
        out["files"].append((t, "node", fn))
        return decl, decl, t, (pp.dirname(t), None)
    if form == "fb_file":
        t = pp.join(d, name + ".rs")
        decl = ext(name)
        out["files"].append((t, "node", fn))
        return decl, decl, t, (d, name)
    if form == "fb_modrs":
        t = pp.join(d, name, "mod.rs")
        decl = ext(name)
        out["files"].append((t, "node", fn))
        return decl, decl, t, (pp.dirname(t), None)
    if form in ("path", "path_sub", "path_up"):
        p = {"path": "p_%s.rs", "path_sub": "pd_%s/p_%s.rs", "path_up": "../p_%s.rs"}[form]
        p = p % ((name,) * p.count("%s"))
        t = norm(pp.join(d, p))
        decl = ext(name, path=p)
        out["files"].append((t, "node", fn))
        if ".." in p:
            out["dirs"].append(d)
        return decl, decl, t, (pp.dirname(t), None)
    if form == "cfgattr":
        p = "c_%s.rs" % name
        t = pp.join(md, name + ".rs")
        decl = ext(name, cfgattr=p)
        out["files"].append((t, "node", fn))
        out["files"].append((pp.join(d, p), "extra", "f_c_" + name))
        return decl, decl, t, (pp.dirname(t), name)
    if form == "cfgattr_only":
        p = "c_%s.rs" % name
        t = pp.join(d, p)
        decl = ext(name, cfgattr=p)
        out["files"].append((t, "node", fn))
        return decl, decl, t, (d, None)
    if form in ("cfgif", "cfgmatch"):
        t = pp.join(md, name + ".rs")
        decl = ext(name)
        e = ext(name + "_e")
        out["files"].append((t, "node", fn))
        out["files"].append((pp.join(md, name + "_e.rs"), "extra", "f_" + name + "_e"))
        mk = cfgif if form == "cfgif" else cfgmatch
        return mk([[decl], [e]]), decl, t, (pp.dirname(t), name)
    raise ValueError(form)


def dev_str(dv):
    return "%s%s=%s" % (dv[0], dv[1], dv[2]) if len(dv) == 3 else "%s=%s" % (dv[0], dv[1])


def plan_id(shape, devs):
    return ("S" + ".".join(map(str, shape)), tuple(dev_str(d) for d in devs))


def case_id(shape, devs, variant):
    s, ds = plan_id(shape, devs)
    return "%s|%s|decoy=%s" % (s, ",".join(ds) if ds else "base", variant)


IGN_KINDS = ["ign_file", "ign_anch", "ign_base", "ign_dir", "ign_dirslash", "ign_glob", "ign_dstar"]


def ignore_pattern(kind, path):
    d, b = pp.dirname(path), pp.basename(path)
    if kind == "ign_file":
        return path
    if kind == "ign_anch":
        return "/" + path
    if kind == "ign_base":
        return b
    if kind == "ign_dir":
        return d if d not in ("src", "") else None
    if kind == "ign_dirslash":
        return pp.basename(d) + "/" if d not in ("src", "") else None
    if kind == "ign_glob":
        return d + "/*.rs"
    if kind == "ign_dstar":
        return "**/" + b
    raise ValueError(kind)


def build_tree(shape, devs):
    """-> dict(asts, roles, fn_names, dirs, cfg, mode, features, intended, negative) or {'dropped': why}"""
    n = len(shape)
    forms = {i: "file" for i in range(1, n + 1)}
    rootkind = "plain"
    marks, dups, negs = [], [], []
    mode = {"spelling": "rel"}
    features = []
    for dv in devs:
        k = dv[0]
        if k == "form":
            forms[dv[1]] = dv[2]
            features.append("form:" + dv[2])
        elif k == "root":
            rootkind = dv[1]
            features.append("root:" + dv[1])
        elif k == "mark":
            marks.append((dv[1], dv[2]))
            features.append("mark:" + dv[2])
        elif k == "dup":
            dups.append((dv[1], dv[2]))
            features.append("dup:" + dv[2])
        elif k == "neg":
            negs.append((dv[1], dv[2]))
            features.append("neg:" + dv[2])
        elif k == "mode":
            if dv[1] in ("skip_children", "stdin"):
                mode[dv[1]] = True
            else:
                mode["spelling"] = dv[1]
            features.append("mode:" + dv[1])
    asts = {ROOT: {"items": [], "fn": "f_root"}}
    roles = {ROOT: "root"}
    out = {"files": [], "dirs": []}
    node_file = {0: ROOT}
    node_site = {0: ("src", ROOT_STEM if rootkind == "dirB" else None)}
    node_decl, node_top, node_parent_site = {}, {}, {}
    filler = []
    if rootkind in ("dirA", "dirB"):
        filler.append("src/%s/unrelated_m.rs" % ROOT_STEM)
    missing = {i for i, k in negs if k == "missing"}
    children = {i: [j for j in range(1, n + 1) if shape[j - 1] == i] for i in range(n + 1)}
    extra_real = []
    for i in range(1, n + 1):
        p = shape[i - 1]
        if p not in node_file:
            continue  # parent is missing: the subtree does not exist
        site = node_site[p]
        f = forms[i]
        if inner_form(f) in ("fb_file", "fb_modrs") and (":" in f or site[1] is None):
            return {"dropped": "inapplicable"}
        o = {"files": [], "dirs": []}
        top, decl, target, child = place(site, f, "m%d" % i, o)
        asts[node_file[p]]["items"].append(top)
        node_decl[i], node_top[i], node_parent_site[i] = decl, top, site
        out["dirs"] += o["dirs"]
        if i in missing:
            # the declaration stays, none of its files exist (for cfg_if the else-branch file stays)
            for path, kind, fn in o["files"]:
                if kind == "extra" and inner_form(f) in ("cfgif", "cfgmatch"):
                    asts[path] = {"items": [], "fn": fn}
                    roles[path] = "extra"
            continue
        for path, kind, fn in o["files"]:
            if path.startswith(".."):
                return {"dropped": "inapplicable"}  # #[path] would leave the tree
            if path in asts:
                return {"dropped": "collision"}
            asts[path] = {"items": [], "fn": fn}
            roles[path] = kind if kind == "extra" else "node%d" % i
        node_file[i] = target
        node_site[i] = child
    decoy_extra = []
    for i, k in negs:
        if k == "both":
            if i not in node_file:
                return {"dropped": "inapplicable"}
            t = node_file[i]
            if node_decl[i].get("path") or (node_decl[i].get("cfgattr")):
                return {"dropped": "inapplicable"}
            if pp.basename(t) == "mod.rs":
                other = pp.dirname(t) + ".rs"
            else:
                other = pp.join(t[:-3], "mod.rs")
            decoy_extra.append(other)
    for i, k in dups:
        if i not in node_file:
            return {"dropped": "inapplicable"}
        p = shape[i - 1]
        pitems = asts[node_file[p]]["items"]
        d, rel = node_parent_site[i]
        md = pp.join(d, rel) if rel else d
        if k == "cfgsame":
            top = node_top[i]
            if top["t"] not in ("ext", "inline"):
                return {"dropped": "inapplicable"}
            cp = copy.deepcopy(top)
            top["cfg"] = "a"
            cp["cfg"] = "not(a)"
            pitems.insert(pitems.index(top) + 1, cp)
        elif k == "samepath":
            if children[i]:
                return {"dropped": "inapplicable"}
            pitems.append(ext("d%d" % i, path=pp.relpath(node_file[i], d)))
        elif k == "dotdot":
            if children[i]:
                return {"dropped": "inapplicable"}
            dd = pp.join(md, "dd%d" % i)
            out["dirs"].append(dd)
            pitems.append(inline("dd%d" % i, [ext("d%d" % i, path=pp.relpath(node_file[i], dd))]))
        else:
            raise ValueError(k)
    cfg = {}
    for i, k in marks:
        if i not in node_file:
            return {"dropped": "inapplicable"}
        f = node_file[i]
        if k == "skipattr":
            if i == 0:
                return {"dropped": "inapplicable"}
            node_decl[i]["skip"] = True
        elif k == "innerskip":
            asts[f]["innerskip"] = True
        elif k == "generated":
            asts[f]["generated"] = True
            cfg["fgf"] = False
        elif k == "generated_on":
            asts[f]["generated"] = True
        elif k == "generated_at_limit":
            asts[f]["generated"] = 5
            cfg["fgf"] = False
        elif k == "generated_past_limit":
            asts[f]["generated"] = 6
            cfg["fgf"] = False
        elif k == "generated_limit0":
            asts[f]["generated"] = 1
            cfg["fgf"] = False
            cfg["gen_limit"] = 0
        elif k in IGN_KINDS:
            pat = ignore_pattern(k, f)
            if pat is None:
                return {"dropped": "inapplicable"}
            cfg.setdefault("ignore", []).append(pat)
        else:
            raise ValueError(k)
    if mode.get("stdin") and mode["spelling"] != "rel":
        return {"dropped": "inapplicable"}
    if mode["spelling"] == "dotdot":
        out["dirs"].append("src/zz_sub")
    return {"asts": asts, "roles": roles, "dirs": sorted(set(out["dirs"])), "cfg": cfg, "mode": mode,
            "features": features, "negative": bool(negs), "filler": filler, "both_files": decoy_extra,
            "n_out_of_line": sum(1 for i in range(1, n + 1) if i in node_decl),
            "has_marker": bool(marks) or bool(mode.get("skip_children")) or bool(mode.get("stdin"))}


UNRELATED = ["src/unrelated.rs", "unrelated_top.rs", "src/zz_other/other.rs"]


def build_cases(shape, devs, policy):
    """policy: 'all' -> one case with every valid decoy; 'full' -> none / all / each single decoy."""
    T = build_tree(shape, devs)
    if "dropped" in T:
        return T
    asts, roles, dirs, cfg, mode = T["asts"], dict(T["roles"]), T["dirs"], T["cfg"], T["mode"]
    decoy_n = [0]

    def decoy_ast():
        decoy_n[0] += 1
        return {"items": [], "fn": "decoy_%d" % decoy_n[0]}

    base_files = set(asts)
    # structural fillers (sibling stem directory, the second candidate of a 'both' fault) are part of the tree
    for p in T["filler"] + T["both_files"]:
        if p in asts:
            return {"dropped": "collision"}
        asts[p] = decoy_ast()
        roles[p] = "filler" if p in T["filler"] else "second-candidate"
        base_files.add(p)
    R0, E0 = expectation(asts, base_files, dirs, cfg, mode)
    if E0["status"] == "unspecified":
        return {"dropped": "unspecified"}
    if not T["negative"]:
        if E0["status"] == "error":
            return {"dropped": "generator_model_mismatch"}
        intended = {p for p, r in T["roles"].items()}
        if set(R0.reached) != intended:
            return {"dropped": "generator_model_mismatch"}
    elif E0["status"] == "ok" and not (mode.get("skip_children") or mode.get("stdin")):
        return {"dropped": "generator_model_mismatch"}
    key0 = R0.key()

    stem_dir = pp.join(pp.dirname(ROOT), ROOT_STEM)
    had_stem_dir = Fs(base_files, dirs).isdir(stem_dir)

    def valid(extra):
        # whether the root has a sibling directory named like its stem is an axis of its own
        # (root=dirA / dirB): a decoy never creates that directory
        if not had_stem_dir and any((c + "/").startswith(stem_dir + "/") for c in extra):
            return False
        R = resolve(asts, base_files | set(extra), dirs, want_cands=False)
        return R.key() == key0

    cands = sorted(c for c in R0.cands if c not in base_files)
    singles = [c for c in cands if valid([c])]
    allset = []
    for c in singles + [u for u in UNRELATED if u not in base_files]:
        if valid(allset + [c]):
            allset.append(c)
    variants = [("all", allset)]
    if policy == "full":
        variants = [("none", [])] + [("one:" + c, [c]) for c in singles] + variants
    cases = []
    for vi, (vname, decoys) in enumerate(variants):
        a2 = dict(asts)
        r2 = dict(roles)
        for c in decoys:
            a2[c] = decoy_ast()
            r2[c] = "unrelated" if c in UNRELATED else "decoy"
        files = {p: render_file(a) for p, a in a2.items()}
        if vname == "all":
            files["src/notes.txt"] = "not rust\n"
            r2["src/notes.txt"] = "unrelated"
        toml = ""
        if cfg.get("ignore"):
            toml += "ignore = [%s]\n" % ", ".join('"%s"' % p for p in cfg["ignore"])
        if cfg.get("fgf") is False:
            toml += "format_generated_files = false\n"
        if "gen_limit" in cfg:
            toml += "generated_marker_line_search_limit = %d\n" % cfg["gen_limit"]
        if toml:
            files["rustfmt.toml"] = toml
            r2["rustfmt.toml"] = "config"
        _R, E = expectation(a2, set(a2), dirs, cfg, mode, want_cands=False)
        if E["status"] != E0["status"] or sorted(E.get("formatted", [])) != sorted(E0.get("formatted", [])):
            return {"dropped": "generator_model_mismatch"}
        n_dec = len(decoys) + len(T["filler"]) + len(T["both_files"])
        nontrivial = T["n_out_of_line"] >= 1 and (n_dec >= 1 or T["has_marker"])
        cases.append({
            "id": case_id(shape, devs, vname), "files": files, "dirs": dirs, "root": ROOT, "mode": mode,
            "expect": E, "roles": r2, "fn_names": {p: a["fn"] for p, a in a2.items()},
            "features": T["features"], "nontrivial": nontrivial, "n_decoys": n_dec,
            "n_real": len(T["roles"]), "sample": vname == "all" and len(devs) >= 1,
            "runs": ["files"] if vname.startswith("one:") else ["stdout", "files"],
        })
    return {"cases": cases}


# --------------------------------------------------------------------------
# plan enumeration (deviation bounded, simplest first)
# --------------------------------------------------------------------------

QUICK_SHAPES = [(0,), (0, 1), (0, 1, 0), (0, 1, 2), (0, 1, 2, 1)]
THOROUGH_SHAPES = QUICK_SHAPES + [(0, 0), (0, 1, 1), (0, 1, 2, 3), (0, 1, 2, 3, 2), (0, 1, 0, 3)]
QUICK_MARKS = ["skipattr", "innerskip", "generated", "generated_on", "generated_at_limit", "generated_past_limit", "generated_limit0", "ign_file", "ign_base", "ign_dir", "ign_glob"]
THOROUGH_MARKS = QUICK_MARKS + ["ign_anch", "ign_dirslash", "ign_dstar"]
ROOT_MARKS = ["innerskip", "generated", "ign_file", "ign_base"]


def alphabet(shape, tier):
    n = len(shape)
    forms = PLAIN_FORMS + (THOROUGH_WRAPPED if tier == "thorough" else QUICK_WRAPPED)
    marksl = THOROUGH_MARKS if tier == "thorough" else QUICK_MARKS
    leaves = [i for i in range(1, n + 1) if i not in shape]
    A = []
    for i in range(1, n + 1):
        for f in forms:
            if f != "file":
                A.append(("form", i, f))
    A += [("root", "dirA"), ("root", "dirB")]
    for i in range(1, n + 1):
        A.append(("neg", i, "missing"))
        A.append(("neg", i, "both"))
    for i in range(1, n + 1):
        A.append(("dup", i, "cfgsame"))
        if i in leaves:
            A.append(("dup", i, "samepath"))
            A.append(("dup", i, "dotdot"))
    for i in range(0, n + 1):
        for m in (ROOT_MARKS if i == 0 else marksl):
            A.append(("mark", i, m))
    A += [("mode", "skip_children"), ("mode", "stdin"), ("mode", "abs"), ("mode", "dotdot")]
    if tier == "thorough":
        A.append(("mode", "parent"))
    return A


def slot(dv):
    if dv[0] == "form":
        return ("form", dv[1])
    if dv[0] == "root":
        return ("root",)
    if dv[0] == "mode":
        return ("mode", "sc") if dv[1] == "skip_children" else ("mode", "in")
    if dv[0] == "neg":
        return ("neg", dv[1])
    if dv[0] == "dup":
        return ("dup", dv[1])
    return dv  # marks: several may coexist, but not the same twice


def compatible(devs):
    slots = [slot(d) for d in devs]
    if len(set(slots)) != len(slots):
        return False
    kinds = {}
    for d in devs:
        kinds.setdefault(d[0], []).append(d)
    # a marker / duplicate on a node that is made missing says nothing
    gone = {d[1] for d in kinds.get("neg", []) if d[2] == "missing"}
    for d in kinds.get("mark", []) + kinds.get("dup", []):
        if d[1] in gone:
            return False
    if len(kinds.get("neg", [])) > 1:
        return False
    modes = {d[1] for d in kinds.get("mode", [])}
    if "stdin" in modes and modes & {"abs", "dotdot", "parent"}:
        return False
    if "stdin" in modes and "skip_children" in modes:
        return False
    return True


STRUCTURAL = {"form", "root", "neg", "dup"}


def levels(tier):
    """The thorough tier starts with exactly the quick tier's levels (so that the first, smallest failing
    representative of a deviation signature is the same case in both tiers) and then extends them."""
    q = [
        {"name": "L0", "k": 0, "shapes": QUICK_SHAPES, "policy": "full"},
        {"name": "L1", "k": 1, "shapes": QUICK_SHAPES, "policy": "full-on-chains"},
        {"name": "L2-small", "k": 2, "shapes": [(0, 1), (0, 1, 0)], "policy": "all"},
    ]
    if tier == "quick":
        return q
    extra_shapes = [s for s in THOROUGH_SHAPES if s not in QUICK_SHAPES]
    return q + [
        {"name": "L0-more-shapes", "k": 0, "shapes": extra_shapes, "policy": "full"},
        {"name": "L1-more-shapes", "k": 1, "shapes": extra_shapes, "policy": "full"},
        {"name": "L1-full-decoys", "k": 1, "shapes": [s for s in QUICK_SHAPES if not _is_chain(s)], "policy": "full"},
        {"name": "L2-small-full-decoys", "k": 2, "shapes": [(0,), (0, 1)], "policy": "full-structural"},
        {"name": "L2", "k": 2, "shapes": [s for s in THOROUGH_SHAPES if s not in [(0,), (0, 1), (0, 1, 0)]], "policy": "all"},
        {"name": "L3-small", "k": 3, "shapes": [(0,), (0, 1)], "policy": "all"},
    ]


def bounds(tier):
    shapes = QUICK_SHAPES if tier == "quick" else THOROUGH_SHAPES
    return {
        "shapes(parent index of node 1..n)": [list(s) for s in shapes],
        "max_depth": max(_depth(s) for s in shapes),
        "max_declared_nodes": max(len(s) for s in shapes),
        "forms": PLAIN_FORMS + (THOROUGH_WRAPPED if tier == "thorough" else QUICK_WRAPPED),
        "levels": [{k: (v if k != "shapes" else [list(s) for s in v]) for k, v in l.items()} for l in levels(tier)],
    }


def _is_chain(shape):
    return all(p == i for i, p in enumerate(shape))


def _depth(shape):
    d = {0: 0}
    for i, p in enumerate(shape, 1):
        d[i] = d[p] + 1
    return max(d.values())


def kind_str(dv):
    """A deviation without its node index (the root keeps its index: a marker on the root is another thing)."""
    if len(dv) == 3:
        if dv[0] == "mark" and dv[1] == 0:
            return "mark0=%s" % dv[2]
        return "%s=%s" % (dv[0], dv[2])
    return "%s=%s" % (dv[0], dv[1])


def plan_sig(devs):
    return tuple(sorted(kind_str(d) for d in devs))


def sig_subset(a, b):
    """multiset inclusion of sorted tuples"""
    if len(a) > len(b):
        return False
    rest = list(b)
    for x in a:
        if x in rest:
            rest.remove(x)
        else:
            return False
    return True


def enumerate_plans(tier, lvl, failing_sigs, run=None, shapes=None):
    """failing_sigs: deviation signatures (deviation kinds without node indices) of plans that already
    failed.  A plan whose signature contains a failing signature is pruned: the earlier, smaller failing
    case is the report, and the pruned plans are counted."""
    plans = []
    for shape in (shapes if shapes is not None else lvl["shapes"]):
        A = alphabet(shape, tier)
        for devs in itertools.combinations(A, lvl["k"]):
            if not compatible(devs):
                continue
            sig = plan_sig(devs)
            if any(sig_subset(f, sig) for f in failing_sigs):
                if run is not None:
                    run.count("plans_pruned_signature_contains_a_failing_signature")
                continue
            pol = lvl["policy"]
            if pol == "full-structural":
                pol = "full" if all(d[0] in STRUCTURAL for d in devs) else "all"
            elif pol == "full-on-chains":
                pol = "full" if all(d[0] in STRUCTURAL for d in devs) and _is_chain(shape) else "all"
            if pol == "all" and lvl["k"] == 2:
                # a fault on a declaration x the form of that same declaration: decoys are the point
                kinds = {d[0]: d for d in devs}
                if set(kinds) == {"form", "neg"} and kinds["form"][1] == kinds["neg"][1]:
                    pol = "full"
            plans.append((shape, devs, pol))
    return plans
