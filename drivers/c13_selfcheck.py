"""C13 oracle self-check: the reference resolver (c13_model.resolve) against rustc itself.

For every cfg-free, marker-free plan (forms file / mod.rs / #[path] / inline / inline+#[path], faults
missing / both, duplicates, crate root with a sibling stem directory read as a crate root) the tree is
given to `rustc --emit=dep-info`; the set of source files rustc loaded (or its E0583 / E0761 / unreadable #[path] failure)
must equal the reference resolver's reached set (or its error).  The rustfmt-specific parts of the
reference (issue-5198 fallback, sub-module reading of the root, cfg_if!/cfg_match!/cfg_attr unions) are
not rustc behaviour and are excluded here.

usage: c13.py --selfcheck [thorough]
"""

import itertools
import os
import shutil
import subprocess
import sys
import tempfile

import common
import c13_model as M

EXCLUDED_FORMS = ("fb_file", "fb_modrs", "cfgattr", "cfgattr_only", "cfgif", "cfgmatch")
_SCRATCH = None


def plans(tier):
    shapes = [(0,), (0, 1), (0, 1, 0), (0, 1, 2)] if tier != "thorough" else M.QUICK_SHAPES
    for shape in shapes:
        A = [d for d in M.alphabet(shape, "thorough")
             if d[0] in ("form", "neg", "dup") or d == ("root", "dirA")]
        A = [d for d in A if not (d[0] == "form" and M.inner_form(d[2]) in EXCLUDED_FORMS)]
        for k in (0, 1, 2):
            for devs in itertools.combinations(A, k):
                if M.compatible(devs):
                    yield (shape, devs)


def check(plan):
    shape, devs = plan
    built = M.build_cases(shape, devs, "all")
    if "dropped" in built:
        return ("dropped", built["dropped"], plan)
    case = built["cases"][0]
    d = tempfile.mkdtemp(prefix="sc-", dir=_SCRATCH)
    try:
        top = os.path.join(d, "t")
        common.write_tree(top, case["files"])
        for dd in case.get("dirs", []):
            os.makedirs(os.path.join(top, dd), exist_ok=True)
        env = dict(common.base_env(), RUSTUP_TOOLCHAIN="nightly-2025-04-02", RUSTUP_HOME=os.environ.get("RUSTUP_HOME", "/root/.rustup"),
                   CARGO_HOME=os.environ.get("CARGO_HOME", "/root/.cargo"), PATH=os.environ.get("PATH", ""))
        p = subprocess.run(["rustc", "--edition", "2021", "--crate-type", "lib", "--emit=dep-info", "-A", "warnings",
                            "-o", os.path.join(d, "out.d"), "src/main.rs"], cwd=top, env=env, capture_output=True, text=True)
        exp = case["expect"]
        if p.returncode != 0:
            codes = {c for c in ("E0583", "E0761", "couldn't read") if c in p.stderr}
            if exp["status"] == "error" and codes:
                return ("agree_error", None, plan)
            return ("DISAGREE", {"rustc": p.stderr[:500], "reference": exp}, plan)
        deps = set()
        for line in open(os.path.join(d, "out.d")):
            if line.startswith(os.path.join(d, "out.d") + ":"):
                for tok in line.split(":", 1)[1].split():
                    deps.add(os.path.normpath(tok))
        if exp["status"] != "ok":
            return ("DISAGREE", {"rustc_loaded": sorted(deps), "reference": exp}, plan)
        if deps != set(exp["formatted"]):
            return ("DISAGREE", {"rustc_loaded": sorted(deps), "reference": sorted(exp["formatted"])}, plan)
        return ("agree_ok", None, plan)
    finally:
        shutil.rmtree(d, ignore_errors=True)


def run_selfcheck(tier, scratch_root):
    global _SCRATCH
    import c13

    _SCRATCH = scratch_root
    try:
        subprocess.run(["rustc", "--version"], capture_output=True, check=True,
                       env=dict(os.environ, RUSTUP_TOOLCHAIN="nightly-2025-04-02"))
    except (OSError, subprocess.CalledProcessError):
        return {"skipped: rustc not runnable": 1}, []
    items = list(plans(tier))
    res = c13.pmap(check, items, os.cpu_count() or 8)
    counts = {}
    bad = []
    for kind, det, plan in res:
        k = kind + (":" + det if kind == "dropped" else "")
        counts[k] = counts.get(k, 0) + 1
        if kind == "DISAGREE":
            bad.append((M.plan_id(*plan), det))
    return counts, bad


def main(argv):
    tier = argv[0] if argv else "quick"
    with common.Scratch("c13sc") as sc:
        counts, bad = run_selfcheck(tier, sc.root)
    print("selfcheck:", counts)
    for pid, det in bad[:20]:
        print("DISAGREE", pid, str(det)[:700])
    return 2 if bad else 0
