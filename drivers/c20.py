#!/usr/bin/env python3
"""C20 - The --backup write protocol never loses the original.

Fault / crash-point enumeration on the REAL rustfmt binary with REAL system calls.

For every input tree and every mode
  level 0   a recording run under `strace -f -y -e trace=%file,%desc` gives the ordered list S of
            file-system-mutating system calls on paths inside the scratch tree;
  level 1   for EVERY k in 1..|S| one run per fault kind in {KILL, EIO, ENOSPC, EACCES} with
            `-e inject=<syscall>:signal=KILL|error=E:when=<n>`; KILL kills the process on ENTRY to the
            k-th mutating call (the call does not execute: verified by a start-up self-test with a probe
            program whose effects are known), so exactly the first k-1 effects happened;
  level d+1 every run in which an *error* was injected continues; its own log gives its own mutating
            sequence, and every call after the injected one is a fault point again (fault sequences).
After every run the whole tree is read back and the oracle is evaluated on the reached state.

Nothing in the oracle is derived from rustfmt's source: the reference "formatted" text comes from
`rustfmt --emit stdout` on standard input, "original" is the pre-run content of the file, and the .bk
sibling is "the file name with its last extension replaced by .bk (appended when there is none)".
"""

import base64
import itertools
import json
import os
import re
import shutil
import subprocess
import sys
import threading
from pathlib import PurePosixPath

sys.path.insert(0, os.path.dirname(os.path.abspath(__file__)))
import common  # noqa: E402
from common import RUSTFMT, Run, Scratch, base_env, parallel_map, require_bins  # noqa: E402

PROP = "C20"
# mutation demonstrations only: judge another build of the subject (default: the build made by ./check)
RUSTFMT = os.environ.get("C20_RUSTFMT_BIN") or RUSTFMT
STRACE = shutil.which("strace", path="/usr/local/bin:/usr/bin:/bin") or "strace"
TRACE = "trace=%file,%desc"
ERRNOS = ["EIO", "ENOSPC", "EACCES"]
KINDS = ["KILL"] + ERRNOS
KIND_RANK = {k: i for i, k in enumerate(KINDS)}


class Machinery(Exception):
    pass


def die(msg):
    print(f"machinery error: {msg}", file=sys.stderr)
    if SCRATCH is not None:
        SCRATCH.cleanup()
    sys.stdout.flush()
    sys.stderr.flush()
    os._exit(2)


# --------------------------------------------------------------------------- strace log parsing

CALL_RE = re.compile(r"^(\d+)\s+(\w+)\((.*)\)\s+= (\?|-?\d+|0x[0-9a-f]+)(.*)$")
EXIT_RE = re.compile(r"^(\d+)\s+\+\+\+ (.*) \+\+\+$")
STR_RE = re.compile(r'"((?:[^"\\]|\\.)*)"')
FD_RE = re.compile(r"(?<![\w/])(\d+|AT_FDCWD)<((?:[^<>\\]|\\.)*)>")
OFLAG_RE = re.compile(r"\bO_[A-Z_]+(?:\|(?:O_[A-Z_]+|0[0-7]*))*")

OPEN_CALLS = {"open", "openat", "openat2", "creat"}
PATH_MUT = {
    "rename", "renameat", "renameat2", "unlink", "unlinkat", "rmdir", "mkdir", "mkdirat", "link", "linkat",
    "symlink", "symlinkat", "truncate", "chmod", "fchmodat", "fchmodat2", "chown", "lchown", "fchownat",
    "utime", "utimes", "utimensat", "futimesat", "mknod", "mknodat", "setxattr", "lsetxattr", "removexattr",
    "lremovexattr",
}
FD_MUT = {
    "write", "pwrite64", "writev", "pwritev", "pwritev2", "ftruncate", "fallocate", "fsync", "fdatasync",
    "copy_file_range", "sendfile", "splice", "fchmod", "fchown", "fsetxattr", "fremovexattr",
}
INTERESTING = OPEN_CALLS | PATH_MUT | FD_MUT | {"close", "mmap"}
WRITE_FLAGS = ("O_WRONLY", "O_RDWR", "O_CREAT", "O_TRUNC", "O_APPEND", "O_TMPFILE")


def unescape(s):
    """strace C-string -> python str (octal / common escapes)."""
    if "\\" not in s:
        return s
    out = bytearray()
    i = 0
    b = s.encode("latin-1", "replace")
    while i < len(b):
        c = b[i]
        if c != 0x5C:
            out.append(c)
            i += 1
            continue
        i += 1
        if i >= len(b):
            break
        c = b[i]
        if 0x30 <= c <= 0x37:
            j = i
            while j < len(b) and j < i + 3 and 0x30 <= b[j] <= 0x37:
                j += 1
            out.append(int(b[i:j], 8) & 0xFF)
            i = j
        else:
            out.append({0x6E: 10, 0x74: 9, 0x72: 13, 0x66: 12, 0x76: 11}.get(c, c))
            i += 1
    return out.decode("utf-8", "replace")


class Call:
    __slots__ = ("line", "name", "args", "ret", "rest", "injected", "paths", "mut", "key", "nth", "flags")

    def __repr__(self):
        return self.key or f"{self.name}(...)"


class Log:
    """Parsed strace log of one run."""

    def __init__(self, text, root):
        self.calls = []
        self.exit = None  # "exited with N" / "killed by SIGKILL"
        self.killed = False
        self.rc = None
        pids = set()
        counts = {}
        wfds = set()
        rootp = root.rstrip("/") + "/"
        for raw in text.splitlines():
            if not raw.strip():
                continue
            m = EXIT_RE.match(raw)
            if m:
                pids.add(m.group(1))
                self.exit = m.group(2)
                if self.exit.startswith("killed by"):
                    self.killed = True
                    self.rc = -9 if "SIGKILL" in self.exit else -1
                else:
                    mm = re.match(r"exited with (\d+)", self.exit)
                    self.rc = int(mm.group(1)) if mm else None
                continue
            if re.match(r"^\d+\s+--- ", raw):
                continue
            m = CALL_RE.match(raw)
            if not m:
                raise Machinery(f"unparsable strace line: {raw!r}")
            pids.add(m.group(1))
            c = Call()
            c.line = len(self.calls)
            c.name, c.args, c.ret, c.rest = m.group(2), m.group(3), m.group(4), m.group(5)
            c.injected = "(INJECTED)" in c.rest
            counts[c.name] = counts.get(c.name, 0) + 1
            c.nth = counts[c.name]
            c.paths = []
            c.mut = False
            c.flags = ""
            ok = c.ret not in ("?",) and not c.ret.startswith("-")
            if (
                c.name not in INTERESTING
                or (c.name in OPEN_CALLS and c.name != "creat" and not any(f in c.args for f in WRITE_FLAGS))
                or (c.name not in OPEN_CALLS and c.name not in PATH_MUT and root not in c.args)
            ):
                c.key = None
                self.calls.append(c)
                continue
            strs = [unescape(s) for s in STR_RE.findall(c.args)]
            fds = [(fd, unescape(p)) for fd, p in FD_RE.findall(c.args)]

            def relfd(p):
                return rel(p) if p.startswith("/") else None

            def rel(p):
                if p.startswith(rootp):
                    return os.path.normpath(p[len(rootp):])
                if p == root:
                    return "."
                if p.startswith("/"):
                    return None
                return os.path.normpath(p)

            if c.name in OPEN_CALLS:
                fm = OFLAG_RE.search(c.args)
                c.flags = fm.group(0) if fm else ""
                p = rel(strs[0]) if strs else None
                if p is not None and (c.name == "creat" or any(f in c.flags for f in WRITE_FLAGS)):
                    c.mut = True
                    c.paths = [p]
                    if ok:
                        wfds.add(int(c.ret))
            elif c.name in PATH_MUT:
                ps = [rel(s) for s in strs]
                ps = [p for p in ps if p is not None]
                if ps:
                    c.mut = True
                    c.paths = ps
            elif c.name in FD_MUT:
                ps = [relfd(p) for fd, p in fds if fd != "AT_FDCWD"]
                ps = [p for p in ps if p is not None]
                if ps:
                    c.mut = True
                    c.paths = ps
            elif c.name == "close":
                if fds and fds[0][0].isdigit() and int(fds[0][0]) in wfds:
                    p = relfd(fds[0][1])
                    if p is not None:
                        c.mut = True
                        c.paths = [p]
                    if not c.injected:
                        wfds.discard(int(fds[0][0]))
            elif c.name == "mmap" and "MAP_SHARED" in c.args and "PROT_WRITE" in c.args:
                if any(relfd(p) is not None for fd, p in fds if fd != "AT_FDCWD"):
                    raise Machinery(f"writable shared mapping of a tree file is not modelled: {raw!r}")
            if c.mut:
                c.key = f"{c.name}({c.args}) = {c.ret}{' ' + c.rest.strip() if c.rest.strip() else ''}".replace(root, "$R")
            else:
                c.key = None
            self.calls.append(c)
        if len(pids) > 1:
            raise Machinery(f"subject used {len(pids)} processes/threads; per-process `when=` counting not modelled")
        self.muts = [c for c in self.calls if c.mut]

    def short(self, c):
        p = ",".join(c.paths)
        f = ""
        if c.name in OPEN_CALLS:
            f = "[" + "|".join(x for x in c.flags.split("|") if x in WRITE_FLAGS) + "]"
        return f"{c.name}{f}({p})"


# --------------------------------------------------------------------------- subjects and inputs

def b64(b):
    return base64.b64encode(b).decode()


def unb64(s):
    return base64.b64decode(s)


def bk_of(rel):
    """The .bk sibling: last extension replaced by .bk, appended when there is none."""
    p = PurePosixPath(rel)
    return str(p.with_suffix(".bk"))


def unformatted(tag, n=1):
    return "".join(f"fn  {tag}{i}( ) {{ let  x{i} = {i} ; }}\n" for i in range(n)).encode()


def formatted_src(tag):
    return f"fn {tag}() {{}}\n".encode()


def make_inputs(thorough):
    """Each input: name, files {rel: bytes}, args [str], targets [rel] (files rustfmt formats)."""
    U = unformatted
    F = formatted_src
    stale_bk = b"// STALE BACKUP of something else, longer than everything else in this tree ............\n"
    stale_tmp = b"// STALE TEMP file, longer than the formatted text so that truncation matters ..........\n"
    ins = []

    def add(name, files, args, targets, tier="quick"):
        if tier == "quick" or thorough:
            ins.append({"name": name, "files": files, "args": args, "targets": targets})

    add("one", {"a.rs": U("a")}, ["a.rs"], ["a.rs"])
    add("changed+formatted", {"a.rs": U("a"), "b.rs": F("b")}, ["a.rs", "b.rs"], ["a.rs", "b.rs"])
    add("formatted+changed", {"a.rs": U("a"), "b.rs": F("b")}, ["b.rs", "a.rs"], ["b.rs", "a.rs"])
    add("three", {"a.rs": U("a"), "b.rs": U("b", 2), "c.rs": U("c", 3)}, ["a.rs", "b.rs", "c.rs"], ["a.rs", "b.rs", "c.rs"])
    add("stale-bk", {"a.rs": U("a"), "a.bk": stale_bk}, ["a.rs"], ["a.rs"])
    add("stale-tmp", {"a.rs": U("a"), "a.tmp": stale_tmp}, ["a.rs"], ["a.rs"])
    add("stale-bk+tmp", {"a.rs": U("a"), "a.bk": stale_bk, "a.tmp": stale_tmp}, ["a.rs"], ["a.rs"])
    add("noext", {"a": U("a")}, ["a"], ["a"])
    add("twodots", {"a.b.rs": U("a")}, ["a.b.rs"], ["a.b.rs"])
    add("submod", {"lib.rs": b"mod   x ;\n" + U("r"), "x.rs": U("x", 2)}, ["lib.rs"], ["lib.rs", "x.rs"])
    add("submod-root-formatted", {"lib.rs": b"mod x;\n" + F("r"), "x.rs": U("x", 2)}, ["lib.rs"], ["lib.rs", "x.rs"])
    # a file reached twice in one run: as a module of one input and as an input itself; through two spellings
    # of its path inside one crate
    add("submod+module-named", {"lib.rs": b"mod   x ;\n" + U("r"), "x.rs": U("x", 2)}, ["lib.rs", "x.rs"], ["lib.rs", "x.rs"])
    add(
        "one-file-two-path-spellings",
        {"lib.rs": b'#[path = "b.rs"]\nmod   x ;\n#[path = "sub/../b.rs"]\nmod   y ;\n' + U("r"), "b.rs": U("b", 2), "sub/keep.txt": b"x\n"},
        ["lib.rs"],
        ["lib.rs", "b.rs"],
    )
    # already formatted, CRLF line endings (unchanged under newline_style=Windows)
    add("formatted-crlf", {"a.rs": F("a").replace(b"\n", b"\r\n")}, ["a.rs"], ["a.rs"])
    # "for every input file": a source file whose own name ends in .tmp
    add("name.tmp", {"t.tmp": U("t")}, ["t.tmp"], ["t.tmp"])
    # thorough tier
    T = "thorough"
    add("subdir-relative", {"src/a.rs": U("a")}, ["src/a.rs"], ["src/a.rs"], T)
    add("subdir-absolute", {"src/a.rs": U("a")}, ["$ROOT/src/a.rs"], ["src/a.rs"], T)
    add("dot-relative", {"a.rs": U("a")}, ["./a.rs"], ["a.rs"], T)
    add(
        "nested-mod",
        {"lib.rs": b"mod   x ;\n" + U("r"), "x/mod.rs": b"pub  mod y ;\n" + U("x"), "x/y.rs": U("y", 2)},
        ["lib.rs"],
        ["lib.rs", "x/mod.rs", "x/y.rs"],
        T,
    )
    add("same-file-twice", {"a.rs": U("a")}, ["a.rs", "a.rs"], ["a.rs"], T)
    add("changed-formatted-changed", {"a.rs": U("a"), "b.rs": F("b"), "c.rs": U("c", 2)}, ["a.rs", "b.rs", "c.rs"], ["a.rs", "b.rs", "c.rs"], T)
    add("big-200KiB", {"a.rs": U("a", 6000)}, ["a.rs"], ["a.rs"], T)
    add("crlf", {"a.rs": unformatted("a", 2).replace(b"\n", b"\r\n")}, ["a.rs"], ["a.rs"], T)
    add("unicode-space-name", {"my é.rs": U("a")}, ["my é.rs"], ["my é.rs"], T)
    add("three-dirs", {"p/a.rs": U("a"), "q/a.rs": U("b", 2), "a.rs": U("c", 3)}, ["p/a.rs", "q/a.rs", "a.rs"], ["p/a.rs", "q/a.rs", "a.rs"], T)
    add("formatted-with-stale-bk+changed", {"a.rs": U("a"), "b.rs": F("b"), "b.bk": stale_bk}, ["b.rs", "a.rs"], ["b.rs", "a.rs"], T)
    add("submod-stale", {"lib.rs": b"mod   x ;\n" + U("r"), "x.rs": U("x", 2), "x.bk": stale_bk, "lib.tmp": stale_tmp}, ["lib.rs"], ["lib.rs", "x.rs"], T)
    add("four", {f"{c}.rs": U(c, i + 1) for i, c in enumerate("abcd")}, [f"{c}.rs" for c in "abcd"], [f"{c}.rs" for c in "abcd"], T)
    return ins


MODES = {
    # mode: (argv prefix, judged by the invariant?)
    "--backup": (["--backup"], True),
    "files": ([], False),
    "--backup --emit files": (["--backup", "--emit", "files"], True),
    "--emit files --backup": (["--emit", "files", "--backup"], True),
    "--backup newline_style=Windows": (["--backup", "--config", "newline_style=Windows"], True),
    "--config make_backup=true": (["--config", "make_backup=true"], True),
}


def modes_for(thorough):
    # every spelling that selects the backup protocol is part of the alphabet: which emitter runs is
    # decided in the command-line layer, before the protocol itself
    return list(MODES) if thorough else ["--backup", "files", "--emit files --backup", "--backup --emit files", "--backup newline_style=Windows"]


def subject_argv(inp, mode, root):
    return [RUSTFMT] + MODES[mode][0] + [a.replace("$ROOT", root) for a in inp["args"]]


_REF_CACHE = {}
_REF_LOCK = threading.Lock()


def reference(content):
    """Reference formatted text: rustfmt --emit stdout on standard input (cwd = empty directory)."""
    with _REF_LOCK:
        if content in _REF_CACHE:
            return _REF_CACHE[content]
    d = SCRATCH.path("ref-cwd")
    os.makedirs(d, exist_ok=True)
    rc, out, err = common.run([RUSTFMT, "--emit", "stdout"], cwd=d, env=base_env(), stdin=content)
    if rc != 0:
        die(f"reference run failed rc={rc}: {err[-300:]!r}")
    with _REF_LOCK:
        _REF_CACHE[content] = out
    return out


# --------------------------------------------------------------------------- running one case

SCRATCH = None
_COUNTER = itertools.count()


def fault_label(faults):
    return "+".join(f"{f['kind']}@{f['ord']}" for f in faults) or "nofault"


def inject_args(faults):
    """strace -e inject= options for the fault list, or None when strace cannot express it."""
    by = {}
    for f in faults:
        name, nth = f.get("via") or (f["name"], f["nth"])
        by.setdefault(name, []).append((nth, f["kind"]))
    out = []
    for name, lst in by.items():
        kinds = {k for _n, k in lst}
        if len(kinds) > 1:
            return None
        kind = kinds.pop()
        act = "signal=KILL" if kind == "KILL" else f"error={kind}"
        ns = sorted(n for n, _k in lst)
        if len(set(ns)) != len(ns):
            return None
        if len(ns) == 1:
            when = str(ns[0])
        else:
            step = ns[1] - ns[0]
            if any(b - a != step for a, b in zip(ns, ns[1:])):
                return None
            when = f"{ns[0]}..{ns[-1]}+{step}"
        out += ["-e", f"inject={name}:{act}:when={when}"]
    return out


def execute(argv_fn, files, faults):
    """One run of the subject under strace with the given faults. Returns dict(rc, killed, log, tree)."""
    n = next(_COUNTER)
    root = SCRATCH.path(f"r{n}")
    os.makedirs(root)
    logp = SCRATCH.path(f"r{n}.log")
    try:
        common.write_tree(root, files)
        inj = inject_args(faults)
        if inj is None:
            raise Machinery("inexpressible fault list reached execute()")
        cmd = [STRACE, "-f", "-y", "-s", "0", "-o", logp, "-e", TRACE] + inj + argv_fn(root)
        p = subprocess.run(cmd, cwd=root, env=base_env(), stdin=subprocess.DEVNULL, capture_output=True, timeout=120)
        try:
            text = open(logp, encoding="latin-1").read()
        except OSError:
            raise Machinery(f"strace wrote no log (rc={p.returncode}, stderr={p.stderr[-300:]!r})")
        log = Log(text, root)
        if log.rc is None:
            raise Machinery(f"no exit record in strace log (strace rc={p.returncode}, stderr={p.stderr[-300:]!r})")
        tree = {}
        for d, _ds, fs in os.walk(root):
            for f in fs:
                fp = os.path.join(d, f)
                tree[os.path.relpath(fp, root)] = common.read(fp)
        return {"rc": log.rc, "killed": log.killed, "log": log, "tree": tree, "stderr": p.stderr.decode("utf-8", "replace")[-400:]}
    finally:
        shutil.rmtree(root, ignore_errors=True)
        try:
            os.unlink(logp)
        except OSError:
            pass


def verify_replay(parent_log, child, faults):
    """The child's mutating prefix must equal the parent's and the last fault must have hit its target."""
    f = faults[-1]
    k = f["ord"]  # 1-based ordinal of the target in the parent's mutating sequence
    pm, cm = parent_log.muts, child["log"].muts
    want = [c.key for c in pm[: k - 1]]
    got = [c.key for c in cm[: k - 1]]
    if want != got:
        raise Machinery(f"replayed prefix differs from the recording before fault {fault_label(faults)}:\n want {want}\n got  {got}")
    target = pm[k - 1]
    if f["kind"] == "KILL":
        if not child["killed"]:
            raise Machinery(f"KILL fault {fault_label(faults)} did not kill the subject (rc={child['rc']})")
        last = child["log"].calls[-1]
        if last.ret != "?":
            raise Machinery(f"killed run's last call has a result: {last.name} = {last.ret}")
        if f.get("via"):
            if last.mut or len(cm) != k - 1 or (last.name, last.nth) != tuple(f["via"]):
                raise Machinery(f"substitute kill point mismatch for {fault_label(faults)}: {last.name}#{last.nth}")
        else:
            if len(cm) != k or not last.mut or last.name != target.name or last.nth != target.nth or last.paths != target.paths:
                raise Machinery(f"kill hit {last.name}#{last.nth}{last.paths}, wanted {target.name}#{target.nth}{target.paths}")
    else:
        if len(cm) < k:
            raise Machinery(f"error fault {fault_label(faults)}: target call never reached")
        hit = cm[k - 1]
        if not hit.injected or f["kind"] not in hit.rest or hit.name != target.name or hit.paths != target.paths or hit.nth != target.nth:
            raise Machinery(f"error fault {fault_label(faults)} hit {hit.key}, wanted {target.key}")
    ninj = sum(1 for c in child["log"].calls if c.injected)
    nerr = sum(1 for x in faults if x["kind"] != "KILL")
    if ninj != nerr:
        raise Machinery(f"{ninj} injected calls in the log, {nerr} expected ({fault_label(faults)})")


def next_faults(res, faults, kinds):
    """Fault lists extending `faults` by one fault at every later mutating call of run `res`.

    Returns (fault lists, {reason: number of fault lists strace cannot express})."""
    log = res["log"]
    start = faults[-1]["ord"] if faults else 0
    out, skipped = [], {}
    for i in range(start, len(log.muts)):
        c = log.muts[i]
        for kind in kinds:
            f = {"ord": i + 1, "name": c.name, "nth": c.nth, "kind": kind, "op": log.short(c)}
            fl = faults + [f]
            if inject_args(fl) is None:
                if kind == "KILL":
                    # same file-system state: die on entry to a non-mutating call between op i and op i+1
                    lo = log.muts[i - 1].line if i > 0 else 0
                    used = {x["name"] for x in faults}
                    sub = [x for x in log.calls[lo + 1 : c.line] if not x.mut and x.name not in used and x.name != "execve"]
                    if sub:
                        f["via"] = (sub[-1].name, sub[-1].nth)
                if inject_args(fl) is None:
                    why = "kill_after_error_on_same_syscall_name_no_call_between" if kind == "KILL" else "different_errnos_or_uneven_spacing_on_same_syscall_name"
                    skipped[why] = skipped.get(why, 0) + 1
                    continue
            out.append(fl)
    return out, skipped


# --------------------------------------------------------------------------- oracle

def classify_file(content, original, formatted):
    if content is None:
        return "absent"
    if content == original:
        return "original"
    if content == formatted:
        return "formatted"
    return "other"


def classify_bk(content, original):
    if content is None:
        return "absent"
    return "original" if content == original else "other"


def abstract_state(tree, target, original, formatted):
    return (classify_file(tree.get(target), original, formatted), classify_bk(tree.get(bk_of(target)), original))


def judge(inp, refs, res, faults):
    """Violations of the invariant in the state reached by one run: list of (class, file, text)."""
    out = []
    tree = res["tree"]
    finished = not res["killed"]
    errs = [f for f in faults if f["kind"] != "KILL"]
    all_success = True
    for t in inp["targets"]:
        orig = inp["files"][t]
        fmt = refs[t]
        fs, bs = abstract_state(tree, t, orig, fmt)
        if tree.get(t) != orig and tree.get(bk_of(t)) != orig:
            out.append(("original_lost", t, f"FILE={fs} BK={bs}: the original bytes are in neither {t} nor {bk_of(t)}"))
        if fs == "other":
            out.append(("file_partial", t, f"FILE={fs}: {t} holds neither the complete original nor the complete formatted text ({len(tree[t])} bytes)"))
        if orig != fmt:
            ok = fs == "formatted" and bs == "original"
        else:
            ok = fs == "original" and tree.get(bk_of(t)) == inp["files"].get(bk_of(t))
        if not ok:
            all_success = False
            if finished and not faults:
                exp = "FILE=formatted BK=original" if orig != fmt else "FILE=original, .bk untouched/absent"
                out.append(("final_state", t, f"uninterrupted run ended with FILE={fs} BK={bs} (rc={res['rc']}), expected {exp}"))
    if finished:
        if not faults and res["rc"] != 0:
            out.append(("final_state", "-", f"uninterrupted run on valid input exited {res['rc']}: {res['stderr'].strip()[-160:]}"))
        if errs and res["rc"] not in (0, 1):
            out.append(("exit_status", "-", f"exit status {res['rc']} after injected error (expected 1)"))
        if errs and res["rc"] == 0 and not all_success:
            out.append(("exit_status", "-", "exit status 0 after an injected error although not every file reached FILE=formatted BK=original"))
    return out


def judge_order(inp, refs, rec, kill_runs):
    """The recorded order per rewritten file: complete formatted text on disk, rename(FILE,bk), rename(tmp,FILE)."""
    out = []
    log = rec["log"]
    for t in inp["targets"]:
        orig, fmt = inp["files"][t], refs[t]
        if orig == fmt:
            touching = [c for c in log.muts if t in c.paths or bk_of(t) in c.paths]
            if touching:
                out.append(("order", t, f"already formatted file (or its .bk) is the object of {log.short(touching[0])}"))
            continue
        bk = bk_of(t)
        idx = [i for i, c in enumerate(log.muts) if t in c.paths]
        if not idx:
            out.append(("order", t, "no file-system operation on a file that needs rewriting"))
            continue
        first = log.muts[idx[0]]
        if not (first.name.startswith("rename") and first.paths == [t, bk]):
            out.append(("order", t, f"first operation on FILE is {log.short(first)}, expected rename({t},{bk})"))
            continue
        kr = kill_runs.get(idx[0] + 1)
        if kr is not None and fmt not in [v for p, v in kr["tree"].items() if p != t]:
            out.append(("order", t, f"when FILE is renamed to {bk} no other file holds the complete formatted text yet"))
        if len(idx) != 2:
            out.append(("order", t, f"{len(idx)} operations on FILE, expected 2: " + " ".join(log.short(log.muts[i]) for i in idx)))
            continue
        second = log.muts[idx[1]]
        if not (second.name.startswith("rename") and len(second.paths) == 2 and second.paths[1] == t and second.paths[0] not in (t, bk)):
            out.append(("order", t, f"second operation on FILE is {log.short(second)}, expected rename(<tmp>,{t})"))
            continue
        tmp = second.paths[0]
        between = [c for c in log.muts[idx[0] + 1 : idx[1]] if {t, bk, tmp} & set(c.paths)]
        if between:
            out.append(("order", t, "operations between rename(FILE,bk) and rename(tmp,FILE): " + " ".join(log.short(c) for c in between)))
        late = [c for c in log.muts[idx[1] + 1 :] if {t, bk, tmp} & set(c.paths)]
        if late:
            out.append(("order", t, "operations after rename(tmp,FILE): " + " ".join(log.short(c) for c in late)))
    return out


# --------------------------------------------------------------------------- exploration of one (input, mode)

def plan_kinds(thorough, depth, faults):
    """Fault kinds tried at `depth` (1-based) below the fault list `faults`; [] = do not go deeper."""
    if depth == 1:
        return KINDS
    parent_kinds = [f["kind"] for f in faults]
    if depth == 2:
        if thorough:
            return KINDS
        return ["KILL", "EIO"] if parent_kinds == ["EIO"] else []
    if depth == 3 and thorough:
        return ["KILL", "EIO"] if parent_kinds == ["EIO", "EIO"] else []
    return []


def explore(argv_fn, inp, refs, thorough, max_depth=None):
    """Runs the fault tree of one subject/input. Returns list of (faults, result) in simplest-first order."""
    rec = execute(argv_fn, inp["files"], [])
    if rec["killed"]:
        raise Machinery("recording run was killed")
    results = [([], rec)]
    frontier = [([], rec)]
    skipped = {}
    depth = 1
    while frontier and (max_depth is None or depth <= max_depth):
        jobs = []
        for faults, res in frontier:
            kinds = plan_kinds(thorough, depth, faults)
            if not kinds:
                continue
            fls, sk = next_faults(res, faults, kinds)
            for why, n in sk.items():
                skipped[why] = skipped.get(why, 0) + n
            jobs += [(fl, res["log"]) for fl in fls]
        jobs.sort(key=lambda j: ([f["ord"] for f in j[0]], [KIND_RANK[f["kind"]] for f in j[0]]))

        def one(job):
            fl, plog = job
            try:
                r = execute(argv_fn, inp["files"], fl)
                verify_replay(plog, r, fl)
                return (fl, r)
            except Machinery as e:
                return (fl, e)
            except subprocess.TimeoutExpired:
                return (fl, Machinery(f"timeout in {fault_label(fl)}"))

        done = parallel_map(one, jobs)
        for fl, r in done:
            if isinstance(r, Machinery):
                raise Machinery(f"[{inp['name']}] {r}")
        results += done
        frontier = [(fl, r) for fl, r in done if not r["killed"]]
        depth += 1
    return results, skipped


# --------------------------------------------------------------------------- start-up self-test (probe)

PROBE_SRC = r'''
import os, sys
mode, new = sys.argv[1], sys.argv[2].encode()
def w(path, data):
    fd = os.open(path, os.O_WRONLY | os.O_CREAT | os.O_TRUNC, 0o666)
    os.write(fd, data)
    os.close(fd)
try:
    if mode == "good":
        w("p.tmp", new); os.rename("p.rs", "p.bk"); os.rename("p.tmp", "p.rs")
    elif mode == "reorder":
        os.rename("p.rs", "p.bk"); w("p.tmp", new); os.rename("p.tmp", "p.rs")
    elif mode == "inplace":
        w("p.rs", new)
    elif mode == "nobackup":
        w("p.tmp", new); os.rename("p.tmp", "p.rs")
except OSError as e:
    os._exit(1)
os._exit(0)
'''


def self_test():
    """strace's injection semantics and the oracle's sensitivity, on a probe whose effects are known."""
    py = os.path.realpath(sys.executable)
    probe = SCRATCH.path("probe.py")
    with open(probe, "w") as f:
        f.write(PROBE_SRC)
    old, new, stale = b"OLD contents\n", b"NEW contents!\n", b"stale\n"
    inp = {"name": "probe", "files": {"p.rs": old, "p.bk": stale}, "args": ["p.rs"], "targets": ["p.rs"]}
    refs = {"p.rs": new}

    def argv(mode):
        return lambda root: [py, "-I", "-S", probe, mode, new.decode()]

    # 1. the correct protocol: every kill / error state must be exactly the prefix state
    results, _ = explore(argv("good"), inp, refs, False, max_depth=1)
    rec = results[0][1]
    ops = [(c.name, c.paths) for c in rec["log"].muts]
    want_ops = [("openat", ["p.tmp"]), ("write", ["p.tmp"]), ("close", ["p.tmp"]), ("rename", ["p.rs", "p.bk"]), ("rename", ["p.tmp", "p.rs"])]
    if ops != want_ops:
        die(f"self-test: probe's recorded mutating calls are {ops}, expected {want_ops}")
    s0 = dict(inp["files"])
    prefix = [s0]
    prefix.append({**s0, "p.tmp": b""})
    prefix.append({**s0, "p.tmp": new})
    prefix.append({**s0, "p.tmp": new})
    prefix.append({"p.bk": old, "p.tmp": new})
    prefix.append({"p.bk": old, "p.rs": new})
    if rec["tree"] != prefix[5] or rec["rc"] != 0:
        die("self-test: probe's uninterrupted run did not reach the expected final state")
    n = 0
    for fl, r in results[1:]:
        k = fl[0]["ord"]
        if fl[0]["kind"] == "KILL":
            if r["tree"] != prefix[k - 1]:
                die(f"self-test: kill on entry to call {k} ({want_ops[k - 1]}) left {sorted(r['tree'].items())}; "
                    f"expected the state after {k - 1} effects - strace does not kill on syscall entry here")
        else:
            exp = prefix[k - 1]  # the failing call has no effect and the probe stops with status 1
            if r["tree"] != exp or r["rc"] != 1:
                die(f"self-test: {fl[0]['kind']} injected into call {k} gave rc={r['rc']} tree={sorted(r['tree'].items())}")
        if judge(inp, refs, r, fl):
            die(f"self-test: oracle flags the correct protocol at {fault_label(fl)}: {judge(inp, refs, r, fl)}")
        n += 1
    kill_runs = {fl[0]["ord"]: r for fl, r in results[1:] if fl[0]["kind"] == "KILL"}
    if judge_order(inp, refs, rec, kill_runs):
        die(f"self-test: order oracle flags the correct protocol: {judge_order(inp, refs, rec, kill_runs)}")
    # 2. broken protocols must be flagged
    for mode, want in (("inplace", {"original_lost", "file_partial", "final_state", "order"}), ("reorder", {"order"}), ("nobackup", {"original_lost", "final_state", "order"})):
        results, _ = explore(argv(mode), inp, refs, False, max_depth=1)
        got = set()
        for fl, r in results:
            got |= {v[0] for v in judge(inp, refs, r, fl)}
        kill_runs = {fl[0]["ord"]: r for fl, r in results[1:] if fl[0]["kind"] == "KILL"}
        got |= {v[0] for v in judge_order(inp, refs, results[0][1], kill_runs)}
        if not want <= got:
            die(f"self-test: oracle misses the broken protocol {mode!r}: flagged {sorted(got)}, expected at least {sorted(want)}")
        n += len(results)
    return n


# --------------------------------------------------------------------------- main

RULE = (
    "a run counts as non-trivial when the injected crash / error actually occurred and the run did not finish "
    "normally (killed, or exit status != 0); distinct = distinct (input, mode, fault sequence)"
)
ASSUMPTIONS = [
    "process crashes between completed system calls only (no power-loss reordering of unsynced data)",
    "strace kill-on-entry / error-injection semantics, verified at start-up on a probe program with known effects",
    "torn writes inside one write call are not injectable; they can only affect the temporary file",
    "reference formatted text = `rustfmt --emit stdout` on standard input; .bk sibling = last extension replaced by .bk",
    "inputs whose .bk names collide (x.rs and x.txt) and inputs named *.bk are outside the property",
    "tmpfs scratch tree, single-threaded subject (asserted: one pid in every strace log)",
]


def refs_for(inp, mode=""):
    refs = {t: reference(inp["files"][t]) for t in inp["targets"]}
    if "newline_style=Windows" in mode:
        refs = {t: r.replace(b"\r\n", b"\n").replace(b"\n", b"\r\n") for t, r in refs.items()}
    return refs


def state_str(s):
    return f"FILE={s[0]},BK={s[1]}"


def explore_one(job):
    """Worker: the fault tree of one (input, mode)."""
    inp, mode, thorough = job
    try:
        refs = refs_for(inp, mode)
        results, skipped = explore(lambda root: subject_argv(inp, mode, root), inp, refs, thorough)
        return (refs, results, skipped)
    except Machinery as e:
        return e


def check_input(run, inp, mode, explored, states, contrast):
    """Bookkeeping and oracle for one explored (input, mode); returns the violation records."""
    judged = MODES[mode][1]
    refs, results, skipped = explored
    for why, n in skipped.items():
        run.count("inexpressible_fault_sequences_skipped", n)
        run.count("skipped_" + why, n)
        run.exhaustive = False
    rec = results[0][1]
    case = f"{inp['name']}/{mode}"
    bad = []  # (faults, class, file, text)
    singles = 0
    for fl, r in results:
        run.evaluated()
        label = fault_label(fl)
        if len(fl) <= 1:
            singles += 1
        if fl:
            run.count("transitions")
            run.count(f"runs_depth{len(fl)}")
            run.count("runs_" + fl[-1]["kind"])
            if r["killed"] or r["rc"] != 0:
                run.nontrivial_case(f"{case}/{label}")
            else:
                run.count("fault_without_effect_on_exit_status")
        else:
            run.count("recordings")
        for t in inp["targets"]:
            if inp["files"][t] == refs[t] and not judged:
                continue
            s = abstract_state(r["tree"], t, inp["files"][t], refs[t])
            key = (("changed" if inp["files"][t] != refs[t] else "unchanged"), s)
            table = states if judged else contrast
            e = table.setdefault(key, {"count": 0, "first": f"{case} file={t} {label}" + (f" [{fl[-1]['op']}]" if fl else "")})
            e["count"] += 1
        vs = judge(inp, refs, r, fl)
        if judged:
            bad += [(fl, c, f, txt) for c, f, txt in vs]
        elif vs:
            run.count("contrast_runs_breaking_the_invariant")
    if judged:
        kill_runs = {fl[0]["ord"]: r for fl, r in results if len(fl) == 1 and fl[0]["kind"] == "KILL"}
        bad += [([], c, f, txt) for c, f, txt in judge_order(inp, refs, rec, kill_runs)]
        changed = [t for t in inp["targets"] if inp["files"][t] != refs[t]]
        if changed and not any(bk_of(t) in rec["tree"] for t in changed):
            run.count("backup_mode_without_bk")
    if len(run.samples) < 6 and mode == "--backup":
        run.sample({
            "case": case,
            "argv": ["rustfmt"] + MODES[mode][0] + inp["args"],
            "tree": {k: v.decode("utf-8", "replace")[:60] for k, v in inp["files"].items()},
            "recorded_mutating_calls": [rec["log"].short(c) for c in rec["log"].muts],
            "kill_states": [
                f"{fault_label(fl)}: " + " ".join(f"{t}:{state_str(abstract_state(r['tree'], t, inp['files'][t], refs[t]))}" for t in inp["targets"])
                for fl, r in results if len(fl) == 1 and fl[0]["kind"] == "KILL"
            ],
        })
    return case, inp, mode, refs, results, bad, singles


def report(run, case, inp, mode, refs, results, bad, singles):
    """One violation per (input, mode): `what` names every violated clause with its number of failing
    no-fault / single-fault runs (identical in both tiers) and the smallest failing fault sequence."""
    if not bad:
        return
    argv_fn = lambda root: subject_argv(inp, mode, root)  # noqa: E731
    classes = {}
    for fl, c, _f, _t in bad:
        e = classes.setdefault(c, {"single": set(), "all": set()})
        e["all"].add(fault_label(fl))
        if len(fl) <= 1:
            e["single"].add(fault_label(fl))
    first_fl, first_cls, first_file, first_txt = bad[0]
    for x in bad:  # bad is in simplest-first order except the order clause appended last
        if x[1] != "order":
            first_fl, first_cls, first_file, first_txt = x
            break
    what = (
        ", ".join(f"{c} in {len(e['single'])}" for c, e in sorted(classes.items()))
        + f" of {singles} no-fault/single-fault runs; first at {fault_label(first_fl)}"
    )
    # determinism: re-run the first failing point once
    if first_cls != "order":
        try:
            again = rerun(argv_fn, inp, first_fl)
            if first_cls not in {c for c, _f, _t in judge(inp, refs, again, first_fl)}:
                what = f"nondeterministic: {first_cls} at {fault_label(first_fl)} did not reproduce"
        except Machinery as e:
            what = f"nondeterministic: re-run of {fault_label(first_fl)} failed: {e}"
    detail = {
        "input": inp["name"],
        "mode": mode,
        "argv": ["rustfmt"] + MODES[mode][0] + inp["args"],
        "files_b64": {k: b64(v) for k, v in inp["files"].items()},
        "targets": inp["targets"],
        "classes": {c: {"single_fault_runs": sorted(e["single"]), "all_runs": len(e["all"])} for c, e in sorted(classes.items())},
        "first": {"faults": first_fl, "class": first_cls, "file": first_file, "observed": first_txt},
        "expected": "original in {FILE, FILE.bk}; FILE in {absent, original, formatted}; uninterrupted run: FILE=formatted, "
        "BK=original, exit 0; injected error: exit 1; order write(tmp) -> rename(FILE,bk) -> rename(tmp,FILE)",
        "recorded_mutating_calls": [results[0][1]["log"].short(c) for c in results[0][1]["log"].muts],
        "failing": [{"faults": fl, "label": fault_label(fl), "class": c, "file": f, "observed": t} for fl, c, f, t in bad[:80]],
        "failing_total": len(bad),
        "shell": shell_repro(inp, mode, first_fl),
    }
    run.violation(case, what, detail)


def rerun(argv_fn, inp, faults):
    """Re-execute one fault sequence from scratch (each level re-derived from its parent's log)."""
    res = execute(argv_fn, inp["files"], [])
    cur = []
    for f in faults:
        log = res["log"]
        if f["ord"] > len(log.muts):
            raise Machinery(f"fault {f['kind']}@{f['ord']}: the run has only {len(log.muts)} mutating calls")
        c = log.muts[f["ord"] - 1]
        nf = {"ord": f["ord"], "name": c.name, "nth": c.nth, "kind": f["kind"], "op": log.short(c)}
        if inject_args(cur + [nf]) is None:
            cands, _ = next_faults(res, cur, [f["kind"]])
            m = [x for x in cands if x[-1]["ord"] == f["ord"]]
            if not m:
                raise Machinery("fault sequence not expressible with strace")
            nf = m[0][-1]
        cur = cur + [nf]
        child = execute(argv_fn, inp["files"], cur)
        verify_replay(log, child, cur)
        res = child
    return res


def shell_repro(inp, mode, faults):
    lines = ["d=$(mktemp -d) && cd $d"]
    for k, v in inp["files"].items():
        if "/" in k:
            lines.append(f"mkdir -p {os.path.dirname(k)!r}")
        lines.append(f"printf %s {b64(v)!r} | base64 -d > {k!r}")
    inj = inject_args(faults) or ["# (fault list not expressible in one strace call)"]
    args = " ".join(repr(a.replace("$ROOT", "$d")) for a in MODES[mode][0] + inp["args"])
    pre = f"strace -f -o /dev/null {' '.join(inj)} " if faults else ""
    lines.append(f"LD_LIBRARY_PATH=$(cd /repo && rustc --print sysroot)/lib {pre}{RUSTFMT} {args}; echo rc=$?; ls -la; head -50 *")
    return "; ".join(lines)


def replay(path):
    global SCRATCH
    rp = json.load(open(path))
    d = rp["detail"]
    inp = {"name": d["input"], "files": {k: unb64(v) for k, v in d["files_b64"].items()}, "args": d["argv"][1 + len(MODES[d["mode"]][0]):], "targets": d["targets"]}
    mode = d["mode"]
    with Scratch("c20") as SCRATCH:
        refs = refs_for(inp)
        argv_fn = lambda root: subject_argv(inp, mode, root)  # noqa: E731
        print(f"property {PROP}  case {rp['case']}\nwhat: {rp['what']}")
        print("argv:", " ".join(d["argv"]))
        print("tree before the run:")
        for k, v in inp["files"].items():
            print(f"  {k}: {v[:70]!r}{'...' if len(v) > 70 else ''} ({len(v)} bytes)")
        for t in inp["targets"]:
            print(f"  reference formatted text of {t}: {refs[t][:70]!r} ({len(refs[t])} bytes){'  [already formatted]' if refs[t] == inp['files'][t] else ''}")
        print("expected:", d["expected"])
        rec = execute(argv_fn, inp["files"], [])
        print("recorded mutating calls:", " ; ".join(f"{i + 1}:{rec['log'].short(c)}" for i, c in enumerate(rec["log"].muts)))
        still = 0
        seen = set()
        todo = [x for x in d["failing"] if not (x["label"] in seen or seen.add(x["label"]))][:12]
        for x in todo:
            try:
                r = rerun(argv_fn, inp, x["faults"])
            except Machinery as e:
                print(f"machinery error: {e}")
                sys.exit(2)
            vs = judge(inp, refs, r, x["faults"])
            if not x["faults"]:
                kr = {}
                for k in range(1, len(rec["log"].muts) + 1):
                    try:
                        kr[k] = rerun(argv_fn, inp, [{"ord": k, "kind": "KILL"}])
                    except Machinery:
                        pass
                vs += judge_order(inp, refs, r, kr)
            print(f"--- faults {x['label']}: rc={r['rc']} killed={r['killed']}")
            for t in inp["targets"]:
                print(f"    {t}: {state_str(abstract_state(r['tree'], t, inp['files'][t], refs[t]))}")
            print("    tree after:", {k: (v[:40] + b"..." if len(v) > 40 else v) for k, v in sorted(r["tree"].items())})
            if r["stderr"].strip():
                print("    stderr:", r["stderr"].strip()[-200:])
            for c, f, txt in vs:
                print(f"    VIOLATED {c} [{f}]: {txt}")
            want = {y["class"] for y in d["failing"] if y["label"] == x["label"]}
            if want & {c for c, _f, _t in vs}:
                still += 1
        print(f"{still} of {len(todo)} recorded failing points still violate the property")
        print("shell reproduction of the first one:\n " + d["shell"])
        sys.exit(1 if still else 0)


def main():
    global SCRATCH
    if len(sys.argv) > 2 and sys.argv[1] == "--replay":
        require_bins(RUSTFMT)
        replay(sys.argv[2])
        return
    require_bins(RUSTFMT)
    if not shutil.which(STRACE):
        die("strace not installed")
    run = Run(PROP, "fault_enumeration", RULE, ASSUMPTIONS)
    thorough = run.thorough
    with Scratch("c20") as SCRATCH:
        try:
            n = self_test()
            run.count("self_test_runs", n)
            inputs = make_inputs(thorough)
            modes = modes_for(thorough)
            states, contrast = {}, {}
            pending = []
            jobs = [(inp, mode, thorough) for inp in inputs for mode in modes]
            # newline_style=Auto never detects CRLF on a file path (known finding, C06 / C08): the CRLF input
            # has a defined formatted text only under an explicit style
            jobs = [j for j in jobs if not (j[0]["name"] == "formatted-crlf" and "newline_style" not in j[1] and j[1] != "files")]
            explored = parallel_map(explore_one, jobs, jobs=int(os.environ.get("C20_OUTER", "4")))
            for (inp, mode, _t), ex in zip(jobs, explored):
                if isinstance(ex, Machinery):
                    raise ex
                pending.append(check_input(run, inp, mode, ex, states, contrast))
            for p in pending:
                report(run, *p)
        except Machinery as e:
            die(str(e))
        run.count("states", len(states))
        run.extra["states"] = len(states)
        run.extra["transitions"] = run.counters.get("transitions", 0)
        run.extra["inputs"] = [i["name"] for i in inputs]
        run.extra["modes"] = modes
        run.extra["fault_kinds"] = KINDS
        run.extra["exhaustive_note"] = (
            "depth 1 (every crash point, every single failing operation, every input, every mode) is complete; "
            "`exhaustive` is false only when some multi-fault sequences could not be expressed with strace "
            "(one action per syscall name), counted in counters.skipped_*"
        )
        run.extra["fault_depth"] = "thorough: all pairs of faults, triples EIO+EIO+{KILL,EIO}" if thorough else "all single faults; pairs EIO+{KILL,EIO}"
        run.extra["abstract_states_backup"] = [
            {"file_kind": k[0], "state": state_str(k[1]), "runs": v["count"], "first_reached_by": v["first"]} for k, v in sorted(states.items())
        ]
        run.extra["abstract_states_contrast_files_mode"] = [
            {"file_kind": k[0], "state": state_str(k[1]), "runs": v["count"], "first_reached_by": v["first"]} for k, v in sorted(contrast.items())
        ]
        print(f"[{PROP}] states={len(states)} transitions={run.extra['transitions']} "
              f"contrast_breaks={run.counters.get('contrast_runs_breaking_the_invariant', 0)} skipped={run.counters.get('inexpressible_fault_sequences_skipped', 0)}", file=sys.stderr)
        if run.counters.get("backup_mode_without_bk"):
            pass
        if len(states) < 2 and not run.violations:
            print(f"[{PROP}] vacuous: fewer than 2 abstract states reached", file=sys.stderr)
            SCRATCH.cleanup()
            sys.exit(2)
        try:
            run.finish()
        finally:
            SCRATCH.cleanup()


if __name__ == "__main__":
    main()
