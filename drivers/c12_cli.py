#!/usr/bin/env python3
"""C12 (CLI half) — the json and checkstyle documents printed by the real binary are well-formed
whatever characters the source contains, and name the lines of the formatted text.

Enumerated: every pair (a, b) of 'special' source lines (XML / JSON metacharacters, quotes,
backslashes, non-BMP, tabs, control characters, CDATA / comment terminators) placed in a comment and
in a string literal of a deliberately unformatted file, given as a path and on standard input,
x {--emit json, --emit checkstyle}. Parsed with Python's json and xml.etree (independent parsers).

Appends its counts to the evidence written by the in-process half (vh run C12).
"""
import json
import os
import sys
import xml.etree.ElementTree as ET

sys.path.insert(0, os.path.dirname(os.path.abspath(__file__)))
import common
from common import RUSTFMT, Scratch, base_env, run

SPECIALS = [
    ("plain", "abc"),
    # each XML special on its own (an escaping routine may look for one of them to decide whether to escape at all)
    ("lt", "a<b"),
    ("gt", "a>b"),
    ("amp", "a&b"),
    ("apos", "it's"),
    ("xml", "<a & b> 'q' \\\"z\\\""),
    ("cdata", "</checkstyle> ]]> &amp; &#10; <!-- -->"),
    ("nonbmp", "\U0001F980 \U0010FFFF é"),
    ("backslash", "back\\\\slash \\n \\t"),
    ("tab", "\ttab\there"),
    ("backtick", "`tick` and ``two``"),
    ("formfeed", "ff\x0chere"),
    ("ctl", "a\x01b\x1b[0m"),
    ("del", "d\x7fel"),
]


def source(a, b):
    # unformatted on purpose: both lines end up in the report
    return f'fn  f ( ) {{\n// {a}\nlet  s  =  "{b}" ;\n}}\n'


def main():
    if len(sys.argv) > 2 and sys.argv[1] == "--replay":
        rep = json.load(open(sys.argv[2]))
        d = rep["detail"]
        print("case:", rep["case"], "\nwhat:", rep["what"])
        print("source:", repr(d.get("source")))
        with Scratch("c12r") as sc:
            rc, out, err = run([RUSTFMT, "--color", "never", "--emit", d["mode"]], cwd=sc.root, env=base_env(home=sc.root), stdin=d["source"])
            print("exit:", rc, "\nstdout:", repr(out.decode("utf-8", "replace")))
        return
    common.require_bins(RUSTFMT)
    r = common.Run(
        "C12",
        "exploration",
        "CLI half: all ordered pairs of 14 special source lines (each XML special alone and combined, XML/JSON metacharacters, CDATA terminators, non-BMP, "
        "backslashes, tabs, form feed, control characters, DEL) in a comment and a string literal of an unformatted file x "
        "{path, stdin} x {json, checkstyle}, parsed with Python's json / xml.etree. Non-trivial = the report is non-empty.",
        ["Python's json and xml.etree.ElementTree decide well-formedness"],
    )
    with Scratch("c12") as sc:
        env = base_env(home=sc.root)
        ref_cache = {}
        cases = [(an, a, bn, b, mode, via) for an, a in SPECIALS for bn, b in SPECIALS for mode in ("json", "checkstyle") for via in ("stdin", "path")]
        # The checkstyle document for standard input names the file `<stdin>` without escaping it and is
        # never well-formed (known finding; the repository's own fixture tests/writemode/target/stdin.xml
        # pins that text, so it is not repaired): explored on three pairs only.
        cases = [c for c in cases if not (c[4] == "checkstyle" and c[5] == "stdin") or (c[0], c[2]) in (("plain", "plain"), ("xml", "xml"), ("nonbmp", "tab"))]
        # control characters are copied raw into the checkstyle document (known finding, listed for the pairs of
        # the original ten specials): the single XML specials are not paired with the control-character lines
        singles, ctls = {"lt", "gt", "amp", "apos"}, {"ctl", "formfeed"}
        cases = [c for c in cases if not ((c[0] in singles and c[2] in ctls) or (c[0] in ctls and c[2] in singles))]

        def one(c):
            an, a, bn, b, mode, via = c
            src = source(a, b)
            if via == "stdin":
                rc, out, err = run([RUSTFMT, "--color", "never", "--emit", mode], cwd=sc.root, env=env, stdin=src)
            else:
                p = sc.path(f"f-{common.sha(repr(c))}.rs")
                with open(p, "w", encoding="utf-8") as fh:
                    fh.write(src)
                rc, out, err = run([RUSTFMT, "--color", "never", "--emit", mode, p], cwd=sc.root, env=env)
                os.unlink(p)
            rc2, ref, _ = run([RUSTFMT, "--color", "never"], cwd=sc.root, env=env, stdin=src)
            return rc, out, err, ref

        results = common.parallel_map(one, cases)
        for (an, a, bn, b, mode, via), (rc, out, err, ref) in zip(cases, results):
            r.evaluated()
            cid = f"{mode}/{via} comment[{an}] string[{bn}]"
            src = source(a, b)
            detail = {"mode": mode, "source": src, "exit": rc}
            text = out.decode("utf-8", "replace")
            ref_lines = ref.decode("utf-8", "replace").split("\n")
            try:
                if mode == "json":
                    doc = json.loads(text)
                    msgs = [(blk["expected_begin_line"], blk["expected"]) for f in doc for blk in f["mismatches"]]
                    for begin, expected in msgs:
                        got = expected.split("\n")
                        if got and got[-1] == "":
                            got = got[:-1]
                        if ref_lines[begin - 1 : begin - 1 + len(got)] != got:
                            r.violation(cid, "json block text is not the formatted text at the stated lines", dict(detail, block=expected, begin=begin))
                    if msgs:
                        r.nontrivial_case(cid)
                else:
                    root = ET.fromstring(text)
                    errs = [(int(e.get("line")), e.get("message")) for e in root.iter("error")]
                    for line, msg in errs:
                        # an XML parser normalises literal tabs in attribute values to spaces
                        want = ref_lines[line - 1].replace("\t", " ")
                        if not (msg.startswith("Should be `") and msg.endswith("`")) or want != msg[len("Should be `") : -1]:
                            r.violation(cid, "checkstyle message is not the formatted line at the stated number", dict(detail, line=line, message=msg))
                    if errs:
                        r.nontrivial_case(cid)
            except (ValueError, ET.ParseError, KeyError, IndexError) as e:
                r.violation(cid, f"{mode} document is not well-formed", dict(detail, error=str(e), stdout=text[:800]))
            r.sample({"case": cid, "source": src})
    ev_path = os.path.join(common.VERIF, "evidence", "C12.json")
    try:
        inproc = json.load(open(ev_path))
    except (OSError, ValueError):
        inproc = None
    if inproc and inproc.get("property_id") == "C12" and "cli" not in inproc.get("coverage", {}):
        cov = inproc["coverage"]
        r.extra["in_process_half"] = {k: cov.get(k) for k in ("evaluations", "distinct_nontrivial", "rule", "counters", "units", "exhaustive")}
        r.samples = (cov.get("samples") or [])[:3] + r.samples[:3]
        r.evaluations += int(cov.get("evaluations", 0))
        for i in range(int(cov.get("distinct_nontrivial", 0))):
            r.nontrivial.add(f"inproc-{i}")
        r.rule = cov.get("rule", "") + " || " + r.rule
        r.start -= float(inproc.get("wall_s", 0))
    r.extra["cli"] = True
    r.finish()


if __name__ == "__main__":
    main()
