#!/usr/bin/env python3
"""C13 - Exactly the reachable, non-excluded files are formatted, each once.

Bounded exhaustive, deviation-bounded enumeration of directory trees of Rust
modules; every tree is given to the real `rustfmt` binary twice
(`--emit stdout ROOT`, then plain `rustfmt ROOT`) and the set of files whose
bytes changed / whose `path:` header was printed is compared with the set
computed by an independent reference resolver (c13_model.py) written from the
reference semantics fixed in DESIGN.md "### C13".

usage: c13.py quick|thorough | --replay <file> | --selfcheck
"""

import hashlib
import json
import os
import shutil
import sys
import tempfile
import time

sys.path.insert(0, os.path.dirname(os.path.abspath(__file__)))
import common  # noqa: E402
import c13_model as M  # noqa: E402

PROP = "C13"
FIXED_NS = common.FIXED_MTIME * 1_000_000_000

RULE = (
    "a case (tree + decoy variant + mode) is non-trivial when the tree declares >= 1 out-of-line "
    "module and contains >= 1 decoy file or exclusion marker (skip attribute, #![rustfmt::skip], "
    "ignore pattern, @generated with format_generated_files=false, skip_children, stdin)"
)
ASSUMPTIONS = [
    "changed bytes <=> formatted: every generated file holds `fn  f_x ( ) { }` which rustfmt always rewrites",
    "reference resolver: DESIGN.md C13 'Reference semantics' (rustc rules for mod-rs / non-mod-rs / inline / "
    "#[path], the issue-5198 fallback, both readings of a root with a sibling stem directory); "
    "cross-checked against `rustc --emit=dep-info` by `c13.py --selfcheck`",
    "files beneath a skipped module (children of `#[rustfmt::skip] mod x;` / of a file with #![rustfmt::skip]) "
    "are don't-care: the property does not say whether they are reached",
    "cfg_attr(c, path): both the path file and the default file are expected when they exist; trees where "
    "neither reading of a construct is implied by the property text are dropped and counted",
    "minimal-counterexample policy: once a plan fails, its deviation signature (deviation kinds without node "
    "indices) is recorded; later plans whose signature contains a recorded one are not run "
    "(counters.plans_pruned_signature_contains_a_failing_signature) and same-batch failures with such a signature "
    "are counted, not reported (counters.failing_cases_with_already_reported_signature); enumeration order is "
    "deterministic and simplest-first, so the reported case is the smallest representative",
    "ignore patterns are evaluated with a gitignore matcher written from the gitignore documentation for "
    "the generated pattern shapes only (exact path, anchored path, basename, directory, dir/*.rs, **/name)",
]


# --------------------------------------------------------------------------
# executing one case against the real binary
# --------------------------------------------------------------------------

def _argv_cwd(case, top, emit_stdout):
    mode = case["mode"]
    argv = [common.RUSTFMT]
    if emit_stdout:
        argv += ["--emit", "stdout"]
    if mode.get("skip_children"):
        argv += ["--config", "skip_children=true"]
    root_abs = os.path.join(top, case["root"])
    src = os.path.dirname(root_abs)
    sp = mode.get("spelling", "rel")
    if mode.get("stdin"):
        return argv, src, case["files"][case["root"]]
    if sp == "rel":
        return argv + [os.path.basename(root_abs)], src, None
    if sp == "abs":
        return argv + [root_abs], os.path.dirname(top), None
    if sp == "dotdot":
        return argv + [os.path.join("zz_sub", "..", os.path.basename(root_abs))], src, None
    if sp == "parent":
        return argv + [os.path.relpath(root_abs, os.path.dirname(top))], os.path.dirname(top), None
    raise ValueError(sp)


def _observe(top, files):
    snap = common.snapshot(top)
    changed, touched, new = [], [], []
    for rel, (h, mt) in sorted(snap.items()):
        if rel not in files:
            new.append(rel)
            continue
        content = files[rel]
        if h != hashlib.sha256(content.encode()).hexdigest():
            changed.append(rel)
        elif mt != FIXED_NS:
            touched.append(rel)
    missing = sorted(set(files) - set(snap))
    return changed, touched, new, missing


def _headers(stdout, top):
    """`path:` headers of --emit stdout, normalised to tree-relative paths."""
    out = []
    lines = stdout.decode("utf-8", "replace").split("\n")
    for i, ln in enumerate(lines):
        if ln.endswith(".rs:") and (i + 1 < len(lines) and lines[i + 1] == ""):
            p = ln[:-1]
            raw = p
            if not os.path.isabs(p):
                p = os.path.join(top, p)
            p = os.path.normpath(p)
            rtop = os.path.realpath(top)
            rp = os.path.realpath(p)
            rel = os.path.relpath(rp, rtop)
            out.append((rel, raw))
    return out


def execute(case, scratch_root):
    """Build the tree, run stdout mode then files mode; return raw observations.
    Single-decoy variants (case['runs'] == ['files']) run files mode only."""
    want = case.get("runs") or ["stdout", "files"]
    d = tempfile.mkdtemp(prefix="c-", dir=scratch_root)
    top = os.path.join(d, "t")
    try:
        os.makedirs(top)
        common.write_tree(top, case["files"])
        for dd in case.get("dirs", []):
            os.makedirs(os.path.join(top, dd), exist_ok=True)
        common.set_mtimes(top)
        env = common.base_env()
        obs = {}
        # 1. --emit stdout: must not write anything; lists the formatted files
        if "stdout" in want or case["mode"].get("stdin"):
            argv, cwd, stdin = _argv_cwd(case, top, True)
            rc, so, se = common.run(argv, cwd=cwd, env=env, stdin=stdin)
            ch, to, new, miss = _observe(top, case["files"])
            obs["stdout_run"] = {
                "argv": argv[1:], "rc": rc, "stderr": se.decode("utf-8", "replace")[:1500],
                "headers": _headers(so, top), "stdout": so.decode("utf-8", "replace")[:6000],
                "changed": ch, "touched": to, "new": new, "missing": miss,
            }
        # 2. files mode (default emit) - unless stdin (stdin always prints to stdout)
        if not case["mode"].get("stdin") and "files" in want:
            argv, cwd, stdin = _argv_cwd(case, top, False)
            rc, so, se = common.run(argv, cwd=cwd, env=env, stdin=stdin)
            ch, to, new, miss = _observe(top, case["files"])
            obs["files_run"] = {
                "argv": argv[1:], "rc": rc, "stderr": se.decode("utf-8", "replace")[:1500],
                "stdout": so.decode("utf-8", "replace")[:1500],
                "changed": ch, "touched": to, "new": new, "missing": miss,
            }
        return obs
    finally:
        shutil.rmtree(d, ignore_errors=True)


def judge(case, obs):
    """The oracle: list of (what, detail) violations. Demands only what the property states.
    The same symptom seen in files mode and in stdout mode is one violation (detail has both)."""
    exp = case["expect"]
    merged = {}

    def add(what, tag, detail):
        merged.setdefault(what, {})[tag] = detail

    fn_names = case.get("fn_names", {})
    expected = set(exp.get("formatted", []))
    dontcare = set(exp.get("dontcare", []))
    allfiles = set(case["files"])
    stdin = bool(case["mode"].get("stdin"))
    so = obs.get("stdout_run")
    fr = obs.get("files_run")
    abn = {"stdout_mode": False, "files_mode": False}
    for tag, r in (("stdout_mode", so), ("files_mode", fr)):
        if r is None:
            continue
        abn[tag] = common.abnormal(r["rc"], r["stderr"].encode())
        if abn[tag]:
            add("abnormal_exit", tag, {"rc": r["rc"], "stderr": r["stderr"][:600]})
    # a run that emits to stdout may not write anything
    if so is not None and (so["changed"] or so["touched"] or so["new"] or so["missing"]):
        add("tree_modified_by_stdout_emit", "stdout_mode", {k: so[k] for k in ("changed", "touched", "new", "missing")})

    if stdin:
        # standard input never recurses: only the root's text may appear
        text = so["stdout"]
        leaked = sorted(p for p, fn in fn_names.items() if p != case["root"] and ("fn " + fn + "()") in text)
        if leaked:
            add("stdin_child_formatted", "stdout_mode", {"leaked": leaked})
        if exp["status"] == "ok" and not abn["stdout_mode"]:
            root_fn = fn_names.get(case["root"])
            if so["rc"] != 0:
                add("unexpected_failure", "stdout_mode", {"rc": so["rc"], "stderr": so["stderr"][:600]})
            elif root_fn and exp.get("stdin_root_check") and ("fn " + root_fn + "() {}") not in text:
                add("stdin_root_not_formatted", "stdout_mode", {"stdout": text[:600]})
        return sorted(merged.items())

    if exp["status"] == "error":
        # an ambiguous or missing module is an error rather than a guess
        for tag, r in (("stdout_mode", so), ("files_mode", fr)):
            if r is None:
                continue
            if r["rc"] == 0:
                add("negative_tree_accepted", tag, {"rc": 0, "changed": r["changed"],
                                                    "headers": [h[0] for h in r.get("headers", [])],
                                                    "why_negative": exp.get("why")})
            elif not r["stderr"].strip():
                add("negative_tree_no_diagnostic", tag, {"rc": r["rc"]})
        # (an accepted negative tree is one violation; "modified" is reported only when the run failed and still wrote)
        if fr is not None and fr["rc"] != 0 and (fr["changed"] or fr["touched"] or fr["new"] or fr["missing"]):
            add("negative_tree_modified", "files_mode", {k: fr[k] for k in ("changed", "touched", "new", "missing")})
        return sorted(merged.items())
    if exp["status"] == "norc":
        # skip_children on a tree with an unresolvable child: only "no child is formatted" is demanded
        bad = sorted(set(fr["changed"]) - expected)
        if bad:
            add("excluded_or_undeclared_file_formatted", "files_mode", {"files": bad})
        return sorted(merged.items())

    # positive tree ------------------------------------------------------
    roles = case.get("roles", {})
    changed = set(fr["changed"])
    extra = sorted(changed - expected - dontcare)
    lost = sorted(expected - changed)
    if extra:
        add("excluded_or_undeclared_file_formatted", "files_mode", {"files": extra, "roles": {p: roles.get(p, "?") for p in extra}})
    if lost:
        add("reachable_file_not_formatted", "files_mode", {"files": lost, "rc": fr["rc"], "stderr": fr["stderr"][:600]})
    must_keep = allfiles - expected - dontcare
    t = sorted(set(fr["touched"]) & must_keep)
    if t:
        add("unformatted_file_touched", "files_mode", {"files": t})
    if fr["new"] or fr["missing"]:
        add("files_created_or_removed", "files_mode", {"new": fr["new"], "missing": fr["missing"]})
    if fr["rc"] != 0 and not extra and not lost and not abn["files_mode"]:
        add("unexpected_failure", "files_mode", {"rc": fr["rc"], "stderr": fr["stderr"][:600]})
    if so is None:
        return sorted(merged.items())
    # stdout mode: each expected file listed exactly once, nothing else listed
    counts = {}
    for rel, _raw in so["headers"]:
        counts[rel] = counts.get(rel, 0) + 1
    twice = sorted(p for p, n in counts.items() if n > 1 and p not in dontcare)
    if twice:
        add("file_formatted_more_than_once", "stdout_mode",
            {"files": twice, "headers": [h[1] for h in so["headers"] if h[0] in twice]})
    listed = set(counts)
    extra = sorted(listed - expected - dontcare)
    lost = sorted(expected - listed)
    if extra:
        add("excluded_or_undeclared_file_formatted", "stdout_mode", {"files": extra, "roles": {p: roles.get(p, "?") for p in extra}})
    if lost:
        add("reachable_file_not_formatted", "stdout_mode", {"files": lost, "rc": so["rc"], "stderr": so["stderr"][:600]})
    if so["rc"] != 0 and not extra and not lost and not abn["stdout_mode"]:
        add("unexpected_failure", "stdout_mode", {"rc": so["rc"], "stderr": so["stderr"][:600]})
    return sorted(merged.items())


# --------------------------------------------------------------------------
# worker: plan -> cases -> verdicts
# --------------------------------------------------------------------------

_SCRATCH = None


def work(item):
    """item = (shape, devs, decoy_policy). Returns a list of per-case result dicts.
    Variants of one plan run smallest first (no decoys, each single decoy, all decoys); a symptom
    (`what`) already reported for a smaller variant of the same plan is counted, not reported again."""
    shape, devs, policy = item
    results = []
    built = M.build_cases(shape, devs, policy)
    if built.get("dropped"):
        return [{"dropped": built["dropped"], "plan": M.plan_id(shape, devs)}]
    seen_what = set()
    for case in built["cases"]:
        obs = execute(case, _SCRATCH)
        v = judge(case, obs)
        res = {"id": case["id"], "nontrivial": case["nontrivial"], "status": case["expect"]["status"],
               "violations": [], "features": case.get("features", []), "n_real": case.get("n_real", 0),
               "n_decoys": case.get("n_decoys", 0), "level": len(devs), "plan": M.plan_id(shape, devs), "sig": M.plan_sig(devs),
               "runs": len(obs), "failed": bool(v), "dup_symptoms": 0}
        if v:
            # determinism: re-run once
            obs2 = execute(case, _SCRATCH)
            res["runs"] += len(obs2)
            v2 = judge(case, obs2)
            if [w for w, _ in v] != [w for w, _ in v2]:
                res["violations"].append(("nondeterministic", {"case": case, "first": [w for w, _ in v],
                                                                "second": [w for w, _ in v2]}))
            else:
                for what, det in v:
                    if what in seen_what:
                        res["dup_symptoms"] += 1
                        continue
                    seen_what.add(what)
                    res["violations"].append((what, {"observed": det, "case": case}))
        elif case.get("sample"):
            res["sample"] = {"id": case["id"], "tree": {p: case["roles"].get(p) for p in sorted(case["files"])},
                             "root_text": case["files"][case["root"]],
                             "mode": case["mode"], "expected_formatted": case["expect"].get("formatted"),
                             "expected_status": case["expect"]["status"],
                             "observed_changed": obs.get("files_run", {}).get("changed"),
                             "observed_headers": [h[0] for h in obs.get("stdout_run", {}).get("headers", [])]}
        results.append(res)
    return results


def pmap(fn, items, jobs):
    import multiprocessing as mp

    if not items:
        return []
    ctx = mp.get_context("fork")
    with ctx.Pool(jobs) as pool:
        return pool.map(fn, items, chunksize=max(1, min(16, len(items) // (jobs * 8) or 1)))


# --------------------------------------------------------------------------
# main
# --------------------------------------------------------------------------

def explore(run):
    global _SCRATCH
    tier = run.tier
    jobs = int(os.environ.get("VERIF_JOBS", "0") or 0) or (os.cpu_count() or 8)
    budget = float(os.environ.get("C13_BUDGET_S", "0") or 0) or (44.0 if tier == "quick" else 17 * 60.0)
    t0 = time.time()
    mismatch = False
    with common.Scratch("c13") as sc:
        _SCRATCH = sc.root
        last_reported_plan = [None]
        failing = []  # deviation signatures of plans that failed (see M.enumerate_plans)
        levels = M.levels(tier)
        completed = []
        slice_n = 500 if tier == "quick" else 4000
        for lvl in levels:
            capped = False
            n_total = n_run = 0
            # shape by shape, smallest first, so that a failing plan prunes its supersets on larger shapes
            for shape in lvl["shapes"]:
                plans = M.enumerate_plans(tier, lvl, failing, run, shapes=[shape])
                n_total += len(plans)
                pos = 0
                while pos < len(plans):
                    if time.time() - t0 > budget:
                        capped = True
                        break
                    part = plans[pos:pos + slice_n]
                    for results in pmap(work, part, jobs):
                        for r in results:
                            if "dropped" in r:
                                run.count("plans_dropped:" + r["dropped"])
                                continue
                            run.evaluated(r["runs"])
                            run.count("cases")
                            run.count("cases_level_%d" % r["level"])
                            run.count("expect_" + r["status"])
                            for f in r["features"]:
                                run.count("feature:" + f)
                            if r["nontrivial"]:
                                run.nontrivial_case(r["id"])
                            if r.get("sample"):
                                run.sample(r["sample"], limit=8)
                            if r["failed"]:
                                run.count("cases_with_violation")
                                sig = tuple(r["sig"])
                                known_sig = [f for f in failing if M.sig_subset(f, sig)]
                                if known_sig and r["plan"] != last_reported_plan[0]:
                                    # same deviation kinds as an earlier, smaller failing case: counted, not reported
                                    run.count("failing_cases_with_already_reported_signature")
                                    continue
                                if not known_sig:
                                    failing.append(sig)
                                last_reported_plan[0] = r["plan"]
                            for what, det in r["violations"]:
                                run.violation(r["id"], what, det)
                            if r["dup_symptoms"]:
                                run.count("symptoms_repeated_on_larger_decoy_variant_of_same_plan", r["dup_symptoms"])
                    pos += len(part)
                    n_run += len(part)
            if capped:
                run.exhaustive = False
                run.extra.setdefault("capped_levels", []).append(
                    {"level": lvl["name"], "plans_total_at_least": n_total, "plans_run": n_run})
            else:
                completed.append(lvl["name"])
        pruned = run.counters.get("plans_pruned_signature_contains_a_failing_signature", 0)
        if pruned:
            run.exhaustive = False
            run.extra["exhaustive_note"] = (
                "%d plans were not run because their deviation signature contains the signature of a smaller "
                "failing case (minimal-counterexample policy); everything else in the stated space was run" % pruned)
        run.extra["levels_completed"] = completed
        run.extra["bounds"] = M.bounds(tier)
        if tier == "thorough" and not os.environ.get("C13_NO_SELFCHECK"):
            # oracle self-check: reference resolver vs `rustc --emit=dep-info` on the cfg-free sub-space
            import c13_selfcheck

            counts, bad = c13_selfcheck.run_selfcheck("quick", sc.root)
            run.extra["resolver_vs_rustc_selfcheck"] = {"counts": counts, "disagreements": [str(b)[:400] for b in bad[:10]]}
            if bad:
                print("machinery error: reference resolver disagrees with rustc on %d trees (see evidence)" % len(bad), file=sys.stderr)
                mismatch = True
    if run.counters.get("plans_dropped:generator_model_mismatch"):
        print("machinery error: generator and reference resolver disagree on %d plans"
              % run.counters["plans_dropped:generator_model_mismatch"], file=sys.stderr)
        mismatch = True
    if mismatch and not run.violations:
        sys.exit(2)
    run.finish(min_nontrivial=2)


def replay(path):
    rec = json.load(open(path))
    det = rec["detail"]
    case = det["case"]
    print(f"property={rec['property']} case={rec['case']}\nwhat={rec['what']}")
    print("--- tree (path: role) ---")
    for p in sorted(case["files"]):
        print(f"  {p}: {case.get('roles', {}).get(p, '')}")
    print("--- file texts ---")
    for p in sorted(case["files"]):
        print(f"## {p}\n{case['files'][p]}", end="")
    print("--- mode ---", json.dumps(case["mode"]))
    print("--- expectation (reference resolver) ---")
    print(json.dumps(case["expect"], indent=1))
    with common.Scratch("c13r") as sc:
        obs = execute(case, sc.root)
    for k, r in obs.items():
        print(f"--- {k}: rustfmt {' '.join(r['argv'])} -> rc={r['rc']}")
        print("changed:", r["changed"], "touched:", r["touched"], "new:", r["new"])
        if "headers" in r:
            print("headers:", [h[1] for h in r["headers"]])
        if r["stderr"].strip():
            print("stderr:", r["stderr"].strip()[:800])
    v = judge(case, obs)
    if v:
        for what, d in v:
            print(f"VIOLATION property={PROP} replay={path}\n  what={what} observed={json.dumps(d)[:800]}")
        sys.exit(1)
    print("no violation on replay")
    sys.exit(0)


def main():
    if os.environ.get("C13_RUSTFMT"):  # mutation demonstrations: a rustfmt built from a scratch copy
        common.RUSTFMT = os.environ["C13_RUSTFMT"]
    common.require_bins(common.RUSTFMT)
    if len(sys.argv) >= 3 and sys.argv[1] == "--replay":
        replay(sys.argv[2])
    if len(sys.argv) >= 2 and sys.argv[1] == "--selfcheck":
        import c13_selfcheck

        sys.exit(c13_selfcheck.main(sys.argv[2:]))
    run = common.Run(PROP, "exploration", RULE, ASSUMPTIONS)
    explore(run)


if __name__ == "__main__":
    main()
