//! Canonical form of a program for C01: parse -> normalise (the closed set of
//! style normalisations, one small rule each) -> pretty-print -> re-lex with
//! rustc's own lexer -> token strings. The same function is applied to the
//! input and to the output, so it can only hide differences inside the listed
//! classes, never create one.

use rustc_ast::mut_visit::{self, MutVisitor};
use rustc_ast::ptr::P;
use rustc_ast::token::{self, Delimiter, TokenKind};
use rustc_ast::tokenstream::{TokenStream, TokenTree};
use rustc_ast::visit::{self, Visitor};
use rustc_ast::{ast, AttrKind};
use rustc_ast_pretty::pprust;
use rustc_session::parse::ParseSess;
use rustc_span::symbol::Symbol;
use smallvec::{smallvec, SmallVec};

use crate::fmt::Cfg;
use crate::parse;
use crate::usetree;

#[derive(Debug, Clone, Default)]
pub struct Opts {
    pub field_init_shorthand: bool,
    pub try_shorthand: bool,
    pub hex_case: bool,
    pub float_zero: bool,
    pub condense_wildcards: bool,
    pub doc_attributes: bool,
    pub format_strings: bool,
    pub reorder_impl_items: bool,
    /// wrap_comments / normalize_comments / format_code_in_doc_comments re-flow doc comments
    pub rewrites_doc_comments: bool,
}

impl Opts {
    pub fn from_cfg(c: &Cfg) -> Opts {
        let on = |k: &str| c.get(k) == Some("true");
        Opts {
            field_init_shorthand: on("use_field_init_shorthand"),
            try_shorthand: on("use_try_shorthand"),
            hex_case: c.get("hex_literal_case").map_or(false, |v| v != "Preserve"),
            float_zero: c.get("float_literal_trailing_zero").map_or(false, |v| v != "Preserve"),
            condense_wildcards: on("condense_wildcard_suffixes"),
            doc_attributes: on("normalize_doc_attributes"),
            format_strings: on("format_strings"),
            reorder_impl_items: on("reorder_impl_items"),
            rewrites_doc_comments: on("wrap_comments") || on("normalize_comments") || on("format_code_in_doc_comments"),
        }
    }
}

struct Norm<'a> {
    opts: &'a Opts,
    psess: &'a ParseSess,
    depth: usize,
}

fn is_reorderable_decl(i: &ast::Item) -> Option<u8> {
    match &i.kind {
        ast::ItemKind::Mod(_, _, ast::ModKind::Unloaded) => Some(1),
        ast::ItemKind::ExternCrate(..) => Some(2),
        _ => None,
    }
}

/// Sort every maximal run of consecutive `mod x;` / `extern crate` declarations
/// (rule: ordering of module declarations); `use` items are removed here and
/// compared separately as leaf sets.
fn normalise_item_list(items: &mut thin_vec::ThinVec<P<ast::Item>>) {
    items.retain(|i| !matches!(i.kind, ast::ItemKind::Use(..)));
    let mut i = 0;
    while i < items.len() {
        if let Some(k) = is_reorderable_decl(&items[i]) {
            let mut j = i;
            while j < items.len() && is_reorderable_decl(&items[j]) == Some(k) {
                j += 1;
            }
            if j - i > 1 {
                let mut run: Vec<P<ast::Item>> = items.drain(i..j).collect();
                run.sort_by_key(|it| pprust::item_to_string(it));
                for (o, it) in run.into_iter().enumerate() {
                    items.insert(i + o, it);
                }
            }
            i = j;
        } else {
            i += 1;
        }
    }
}

/// empty where-clauses
fn fix_generics(g: &mut ast::Generics) {
    if g.where_clause.predicates.is_empty() {
        g.where_clause.has_where_token = false;
    }
}

fn single_expr_block(b: &ast::Block) -> Option<&P<ast::Expr>> {
    if b.rules != ast::BlockCheckMode::Default || b.stmts.len() != 1 {
        return None;
    }
    match &b.stmts[0].kind {
        ast::StmtKind::Expr(e) => Some(e),
        // `{ return; }`: block-versus-expression body combined with the optional
        // semicolon after a trailing return / break / continue
        ast::StmtKind::Semi(e) if matches!(e.kind, ast::ExprKind::Ret(..) | ast::ExprKind::Break(..) | ast::ExprKind::Continue(..)) => Some(e),
        _ => None,
    }
}

/// `{ e }` -> `e` for match-arm and closure bodies (no label, no attributes).
fn unwrap_body(e: &mut P<ast::Expr>) {
    loop {
        let inner = match &e.kind {
            ast::ExprKind::Block(b, None) if e.attrs.is_empty() => single_expr_block(b).cloned(),
            _ => None,
        };
        match inner {
            Some(i) => *e = i,
            None => break,
        }
    }
}

fn cook_str(sym: Symbol, mode: rustc_lexer::unescape::Mode) -> Option<String> {
    let src = sym.as_str();
    let mut out = String::new();
    let mut ok = true;
    rustc_lexer::unescape::unescape_unicode(src, mode, &mut |_, r| match r {
        Ok(c) => out.push(c),
        Err(e) => {
            if e.is_fatal() {
                ok = false
            }
        }
    });
    if ok {
        Some(out)
    } else {
        None
    }
}

impl<'a> Norm<'a> {
    fn norm_lit(&self, lit: &mut token::Lit) {
        match lit.kind {
            token::LitKind::Str => {
                // compared by cooked value (line continuations, format_strings)
                if let Some(c) = cook_str(lit.symbol, rustc_lexer::unescape::Mode::Str) {
                    let esc: String = c.escape_default().collect();
                    lit.symbol = Symbol::intern(&esc);
                }
            }
            token::LitKind::Integer if self.opts.hex_case => {
                let s = lit.symbol.as_str();
                if s.starts_with("0x") {
                    lit.symbol = Symbol::intern(&format!("0x{}", s[2..].to_ascii_lowercase()));
                }
            }
            token::LitKind::Float if self.opts.float_zero => {
                // `1.0` == `1.` == `1.00`? only a single trailing `.0` / `.` is touched by rustfmt
                let s = lit.symbol.as_str().to_string();
                let (mant, exp) = match s.find(['e', 'E']) {
                    Some(p) => (s[..p].to_string(), s[p..].to_string()),
                    None => (s.clone(), String::new()),
                };
                let mant = if let Some(m) = mant.strip_suffix(".0") {
                    format!("{m}.")
                } else {
                    mant
                };
                lit.symbol = Symbol::intern(&format!("{mant}{exp}"));
            }
            _ => {}
        }
    }
}

impl<'a> MutVisitor for Norm<'a> {
    fn visit_crate(&mut self, c: &mut ast::Crate) {
        mut_visit::walk_crate(self, c);
        normalise_item_list(&mut c.items);
    }

    fn visit_item(&mut self, i: &mut P<ast::Item>) {
        mut_visit::walk_item(self, i);
        let item_span = i.span;
        match &mut i.kind {
            ast::ItemKind::Fn(f) => fix_generics(&mut f.generics),
            ast::ItemKind::TyAlias(t) => fix_generics(&mut t.generics),
            ast::ItemKind::Enum(_, _, g) | ast::ItemKind::Struct(_, _, g) | ast::ItemKind::Union(_, _, g) => fix_generics(g),
            ast::ItemKind::Trait(t) => fix_generics(&mut t.generics),
            ast::ItemKind::TraitAlias(_, g, _) => fix_generics(g),
            ast::ItemKind::Const(c) => fix_generics(&mut c.generics),
            ast::ItemKind::Mod(_, _, ast::ModKind::Loaded(items, ..)) => normalise_item_list(items),
            ast::ItemKind::ForeignMod(fm) => {
                // explicit extern ABI
                if fm.abi.is_none() {
                    fm.abi = Some(ast::StrLit {
                        symbol: Symbol::intern("C"),
                        suffix: None,
                        symbol_unescaped: Symbol::intern("C"),
                        style: ast::StrStyle::Cooked,
                        span: item_span,
                    });
                }
            }
            ast::ItemKind::MacCall(m) => self.norm_mac(m),
            ast::ItemKind::MacroDef(_, def) => self.norm_macro_def(def),
            ast::ItemKind::Impl(imp) if !self.opts.reorder_impl_items => fix_generics(&mut imp.generics),
            ast::ItemKind::Impl(imp) => {
                fix_generics(&mut imp.generics);
                imp.items.sort_by_key(|it| format!("{:?}", it.kind.ident().map(|i| i.name.as_str().to_string())));
            }
            _ => {}
        }
    }

    fn visit_fn_header(&mut self, h: &mut ast::FnHeader) {
        if let ast::Extern::Implicit(sp) = h.ext {
            h.ext = ast::Extern::Explicit(
                ast::StrLit {
                    symbol: Symbol::intern("C"),
                    suffix: None,
                    symbol_unescaped: Symbol::intern("C"),
                    style: ast::StrStyle::Cooked,
                    span: sp,
                },
                sp,
            );
        }
    }


    fn visit_vis(&mut self, vis: &mut ast::Visibility) {
        if let ast::VisibilityKind::Restricted { path, shorthand, .. } = &mut vis.kind {
            // the spelling of restricted visibility: `pub(in ::a::b)` is `pub(in a::b)`
            if path.segments.len() > 1 && path.segments[0].ident.name == rustc_span::symbol::kw::PathRoot {
                path.segments.remove(0);
            }
            if path.segments.len() == 1 {
                let n = path.segments[0].ident.name;
                if n == rustc_span::symbol::kw::Crate || n == rustc_span::symbol::kw::SelfLower || n == rustc_span::symbol::kw::Super {
                    *shorthand = true;
                }
            }
        }
    }

    fn visit_assoc_item(&mut self, i: &mut P<ast::AssocItem>, ctxt: rustc_ast::visit::AssocCtxt) {
        mut_visit::walk_assoc_item(self, i, ctxt);
        match &mut i.kind {
            ast::AssocItemKind::Fn(f) => fix_generics(&mut f.generics),
            ast::AssocItemKind::Type(t) => fix_generics(&mut t.generics),
            ast::AssocItemKind::Const(c) => fix_generics(&mut c.generics),
            ast::AssocItemKind::MacCall(m) => self.norm_mac(m),
            _ => {}
        }
    }

    fn visit_ty(&mut self, t: &mut P<ast::Ty>) {
        mut_visit::walk_ty(self, t);
        if let ast::TyKind::Paren(inner) = &t.kind {
            // keep the parentheses rustc needs around bounds (`&(dyn A + B)`): pprust does not re-insert them
            let needs = matches!(&inner.kind, ast::TyKind::TraitObject(b, _) | ast::TyKind::ImplTrait(_, b) if b.len() > 1)
                || matches!(&inner.kind, ast::TyKind::BareFn(..) | ast::TyKind::TraitObject(..) | ast::TyKind::ImplTrait(..));
            if !needs {
                let inner = inner.clone();
                *t = inner;
            }
        }
        if let ast::TyKind::BareFn(bf) = &mut t.kind {
            if let ast::Extern::Implicit(sp) = bf.ext {
                bf.ext = ast::Extern::Explicit(
                    ast::StrLit {
                        symbol: Symbol::intern("C"),
                        suffix: None,
                        symbol_unescaped: Symbol::intern("C"),
                        style: ast::StrStyle::Cooked,
                        span: sp,
                    },
                    sp,
                );
            }
        }
    }

    fn visit_pat(&mut self, p: &mut P<ast::Pat>) {
        mut_visit::walk_pat(self, p);
        if let ast::PatKind::Paren(inner) = &p.kind {
            // `(A | B)` inside another pattern needs its parentheses; pprust does not re-insert them
            if !matches!(inner.kind, ast::PatKind::Or(..) | ast::PatKind::Range(..)) {
                let inner = inner.clone();
                *p = inner;
            }
        }
        if self.opts.condense_wildcards {
            let pats = match &mut p.kind {
                ast::PatKind::TupleStruct(_, _, ps) | ast::PatKind::Tuple(ps) => Some(ps),
                _ => None,
            };
            if let Some(ps) = pats {
                let n = ps.iter().rev().take_while(|q| matches!(q.kind, ast::PatKind::Wild)).count();
                let has_rest = ps.iter().any(|q| matches!(q.kind, ast::PatKind::Rest));
                if n >= 2 && !has_rest {
                    let keep = ps.len() - n;
                    let mut rest = ps[keep].clone();
                    rest.kind = ast::PatKind::Rest;
                    ps.truncate(keep);
                    ps.push(rest);
                }
            }
        }
    }

    fn visit_expr(&mut self, e: &mut P<ast::Expr>) {
        mut_visit::walk_expr(self, e);
        // redundant parentheses: pprust re-inserts the ones precedence requires
        while let ast::ExprKind::Paren(inner) = &e.kind {
            if !e.attrs.is_empty() {
                break;
            }
            let inner = inner.clone();
            *e = inner;
        }
        match &mut e.kind {
            ast::ExprKind::Match(_, arms, _) => {
                for a in arms.iter_mut() {
                    if let Some(b) = &mut a.body {
                        unwrap_body(b);
                    }
                }
            }
            ast::ExprKind::Closure(c) => {
                if matches!(c.fn_decl.output, ast::FnRetTy::Default(_)) {
                    unwrap_body(&mut c.body);
                }
            }
            ast::ExprKind::Lit(l) => self.norm_lit(l),
            ast::ExprKind::MacCall(m) => self.norm_mac(m),
            ast::ExprKind::Struct(s) if self.opts.field_init_shorthand => {
                for f in s.fields.iter_mut() {
                    if let ast::ExprKind::Path(None, p) = &f.expr.kind {
                        if p.segments.len() == 1 && p.segments[0].ident.name == f.ident.name && p.segments[0].args.is_none() {
                            f.is_shorthand = true;
                        }
                    }
                }
            }
            _ => {}
        }
        if self.opts.try_shorthand {
            let inner = match &e.kind {
                ast::ExprKind::MacCall(m) if m.path.segments.len() == 1 && m.path.segments[0].ident.name.as_str() == "try" => {
                    let mut p = rustc_parse::parser::Parser::new(self.psess, m.args.tokens.clone(), None);
                    match p.parse_expr() {
                        Ok(ex) if p.token.kind == TokenKind::Eof => Some(ex),
                        Ok(_) => None,
                        Err(d) => {
                            d.cancel();
                            None
                        }
                    }
                }
                _ => None,
            };
            if let Some(mut ex) = inner {
                self.visit_expr(&mut ex);
                e.kind = ast::ExprKind::Try(ex);
            }
        }
    }

    fn visit_block(&mut self, b: &mut P<ast::Block>) {
        mut_visit::walk_block(self, b);
        // `use` declarations among the statements are compared separately
        b.stmts.retain(|s| !matches!(&s.kind, ast::StmtKind::Item(i) if matches!(i.kind, ast::ItemKind::Use(..))));
        // a trailing `return` / `break` / `continue` with or without `;`
        if let Some(last) = b.stmts.last_mut() {
            let promote = match &last.kind {
                ast::StmtKind::Expr(e) => matches!(e.kind, ast::ExprKind::Ret(..) | ast::ExprKind::Break(..) | ast::ExprKind::Continue(..)),
                _ => false,
            };
            if promote {
                if let ast::StmtKind::Expr(e) = last.kind.clone() {
                    last.kind = ast::StmtKind::Semi(e);
                }
            }
        }
    }

    fn flat_map_stmt(&mut self, s: ast::Stmt) -> SmallVec<[ast::Stmt; 1]> {
        let mut out = mut_visit::walk_flat_map_stmt(self, s);
        // redundant semicolons
        out.retain(|s| !matches!(s.kind, ast::StmtKind::Empty));
        for s in out.iter_mut() {
            let demote = match &s.kind {
                ast::StmtKind::Semi(e) => {
                    matches!(e.kind, ast::ExprKind::Loop(..) | ast::ExprKind::While(..) | ast::ExprKind::ForLoop { .. })
                }
                _ => false,
            };
            if demote {
                if let ast::StmtKind::Semi(e) = s.kind.clone() {
                    s.kind = ast::StmtKind::Expr(e);
                }
            }
            if let ast::StmtKind::MacCall(m) = &mut s.kind {
                self.norm_mac(&mut m.mac);
            }
        }
        out
    }
}

/// `$name` -> `zz_dollar_name` (what rustfmt does before parsing a macro body);
/// `None` when the stream contains a `$` that cannot be substituted (`$(...)*`).
fn substitute_dollar(ts: &TokenStream) -> Option<TokenStream> {
    let trees: Vec<&TokenTree> = ts.iter().collect();
    let mut out: Vec<TokenTree> = vec![];
    let mut i = 0;
    while i < trees.len() {
        match trees[i] {
            TokenTree::Token(t, _) if t.kind == TokenKind::Dollar => match trees.get(i + 1) {
                Some(TokenTree::Token(n, sp)) => match n.ident() {
                    Some((id, _)) => {
                        let name = format!("zz_dollar_{}", id.name.as_str());
                        out.push(TokenTree::Token(
                            token::Token::from_ast_ident(rustc_span::symbol::Ident::from_str(&name)),
                            *sp,
                        ));
                        i += 2;
                    }
                    None => return None,
                },
                _ => return None,
            },
            TokenTree::Token(..) => {
                out.push(trees[i].clone());
                i += 1;
            }
            TokenTree::Delimited(sp, spacing, d, inner) => {
                let inner = substitute_dollar(inner)?;
                out.push(TokenTree::Delimited(*sp, *spacing, *d, inner));
                i += 1;
            }
        }
    }
    Some(TokenStream::new(out))
}

fn stream_of(text: &str) -> Option<TokenStream> {
    let psess = parse::silent_psess();
    let r = rustc_parse::source_str_to_stream(&psess, rustc_span::FileName::Custom("canon-mac".into()), text.to_string(), None);
    let out = match r {
        Ok(ts) => Some(ts),
        Err(ds) => {
            for d in ds {
                d.cancel();
            }
            None
        }
    };
    out
}

impl<'a> Norm<'a> {
    /// Parse `wrapper` as a crate in a fresh session, normalise it with the same rules.
    fn parse_norm(&self, wrapper: &str) -> Option<ast::Crate> {
        let psess = parse::silent_psess();
        let mut k = parse::parse_crate_in(&psess, wrapper).ok()?;
        let mut n = Norm { opts: self.opts, psess: &psess, depth: self.depth + 1 };
        n.visit_crate(&mut k);
        Some(k)
    }

    /// Macro-call arguments that parse as a list of expressions are compared as
    /// expressions (trailing separator, parentheses, closure / arm bodies ... inside
    /// macro invocations); anything else stays a flat token list.
    fn canon_args(&self, ts: &TokenStream) -> Option<TokenStream> {
        if self.depth > 6 || ts.is_empty() {
            return None;
        }
        let ts2 = substitute_dollar(ts)?;
        let text = pprust::tts_to_string(&ts2);
        for (open, close) in [("zz_call(", ")"), ("[", "]")] {
            let wrapper = format!("fn zz_w() {{ {open}{text}{close}; }}");
            let Some(k) = self.parse_norm(&wrapper) else { continue };
            let Some(item) = k.items.first() else { continue };
            let ast::ItemKind::Fn(f) = &item.kind else { continue };
            let Some(body) = &f.body else { continue };
            if body.stmts.len() != 1 {
                continue;
            }
            let e = match &body.stmts[0].kind {
                ast::StmtKind::Semi(e) | ast::StmtKind::Expr(e) => e,
                _ => continue,
            };
            let printed = match &e.kind {
                ast::ExprKind::Call(_, args) => args.iter().map(|a| pprust::expr_to_string(a)).collect::<Vec<_>>().join(" , "),
                ast::ExprKind::Array(args) => args.iter().map(|a| pprust::expr_to_string(a)).collect::<Vec<_>>().join(" , "),
                ast::ExprKind::Repeat(a, n) => format!("{} ; {}", pprust::expr_to_string(a), pprust::expr_to_string(&n.value)),
                _ => continue,
            };
            return stream_of(&printed);
        }
        None
    }

    /// A macro body (brace-delimited arguments, `macro_rules!` arm) that parses as the
    /// statements of a block is compared as code.
    fn canon_body(&self, ts: &TokenStream) -> Option<TokenStream> {
        if self.depth > 6 {
            return None;
        }
        let ts2 = substitute_dollar(ts)?;
        // `lazy_static!` items (`static ref NAME: T = e;`) are parsed the way rustfmt parses them
        let text = pprust::tts_to_string(&ts2).replace("static ref ", "static zz_ref_");
        let wrapper = format!("fn zz_w() {{ {text} }}");
        let k = self.parse_norm(&wrapper)?;
        let item = k.items.first()?;
        stream_of(&pprust::item_to_string(item))
    }

    /// the delimiter of vec!-like macro calls; arguments as code where they parse
    fn norm_mac(&mut self, m: &mut ast::MacCall) {
        if m.path.segments.len() == 1 && m.path.segments[0].ident.name.as_str() == "vec" {
            m.args.delim = Delimiter::Bracket;
        }
        let new = if m.args.delim == Delimiter::Brace {
            self.canon_body(&m.args.tokens).or_else(|| self.canon_args(&m.args.tokens))
        } else {
            self.canon_args(&m.args.tokens)
        };
        if let Some(ts) = new {
            m.args.tokens = ts;
        }
    }

    /// `macro_rules!` / `macro`: arms `matcher => { body }` separated by `;` (the last
    /// one optional); bodies as code where they parse.
    fn norm_macro_def(&mut self, def: &mut ast::MacroDef) {
        // `macro name(matcher) { body }` is stored as the single arm `(matcher) => { body }`
        let trees: Vec<TokenTree> = def.body.tokens.iter().cloned().collect();
        let mut out: Vec<TokenTree> = vec![];
        let mut i = 0;
        while i < trees.len() {
            // matcher
            let is_arm = matches!(&trees[i], TokenTree::Delimited(..))
                && matches!(trees.get(i + 1), Some(TokenTree::Token(t, _)) if t.kind == TokenKind::FatArrow)
                && matches!(trees.get(i + 2), Some(TokenTree::Delimited(..)));
            if !is_arm {
                // not the shape we know: leave the definition alone
                return;
            }
            out.push(trees[i].clone());
            out.push(trees[i + 1].clone());
            if let TokenTree::Delimited(sp, spacing, _d, inner) = &trees[i + 2] {
                let inner2 = self.canon_body(inner).unwrap_or_else(|| inner.clone());
                // the delimiter of an arm body is free (`{}`, `()`, `[]` all allowed), rustfmt keeps it
                out.push(TokenTree::Delimited(*sp, *spacing, *_d, inner2));
            }
            i += 3;
            // optional `;`
            if matches!(trees.get(i), Some(TokenTree::Token(t, _)) if t.kind == TokenKind::Semi) {
                i += 1;
            }
            out.push(TokenTree::Token(token::Token::new(TokenKind::Semi, def.body.dspan.close), rustc_ast::tokenstream::Spacing::Alone));
        }
        def.body.tokens = TokenStream::new(out);
    }
}

fn flatten_tokens(ts: &TokenStream, out: &mut Vec<String>) {
    for tt in ts.iter() {
        match tt {
            TokenTree::Token(t, _) => match &t.kind {
                TokenKind::DocComment(kind, style, sym) => {
                    // re-indentation inside doc comments: every line trimmed
                    let body: Vec<String> = sym.as_str().lines().map(|l| l.trim().trim_start_matches('*').trim().to_string()).collect();
                    out.push(format!("doc:{kind:?}:{style:?}:{}", body.join("\n").trim()));
                }
                _ => out.push(pprust::token_to_string(t).to_string()),
            },
            TokenTree::Delimited(_, _, delim, inner) => {
                let (o, c) = match delim {
                    Delimiter::Parenthesis => ("(", ")"),
                    Delimiter::Brace => ("{", "}"),
                    Delimiter::Bracket => ("[", "]"),
                    Delimiter::Invisible(_) => ("", ""),
                };
                out.push(o.to_string());
                flatten_tokens(inner, out);
                out.push(c.to_string());
            }
        }
    }
}

/// Token-level rules that are easier after printing: adjacent derives merged,
/// trailing comma inside `derive(..)`.
fn post_tokens(toks: Vec<String>) -> Vec<String> {
    let mut out: Vec<String> = Vec::with_capacity(toks.len());
    let mut i = 0;
    let pat = [")", "]", "#", "[", "derive", "("];
    while i < toks.len() {
        // `)] #[derive(` directly after a derive list -> `,`
        if i + pat.len() <= toks.len() && toks[i..i + pat.len()].iter().map(|s| s.as_str()).eq(pat.iter().copied()) {
            // only if the `)` closes a derive list: look back for the matching `(` preceded by `derive`
            let mut depth = 0i32;
            let mut j = out.len();
            let mut is_derive = false;
            while j > 0 {
                j -= 1;
                match out[j].as_str() {
                    ")" => depth += 1,
                    "(" => {
                        if depth == 0 {
                            is_derive = j > 0 && out[j - 1] == "derive";
                            break;
                        }
                        depth -= 1;
                    }
                    _ => {}
                }
            }
            if is_derive {
                if out.last().map(|s| s.as_str()) != Some(",") {
                    out.push(",".to_string());
                }
                i += pat.len();
                continue;
            }
        }
        // empty generic lists: `Vec<>` is `Vec`, `Foo::<>` is `Foo` (an empty `<` `>` pair is nothing else)
        if toks[i] == "<" && toks.get(i + 1).map(|s| s.as_str()) == Some(">") {
            if out.last().map(|s| s.as_str()) == Some("::") {
                out.pop();
            }
            i += 2;
            continue;
        }
        out.push(toks[i].clone());
        i += 1;
    }
    // drop a trailing comma in the argument lists of attributes: `, )` inside `#[ ... ]`
    let mut res: Vec<String> = Vec::with_capacity(out.len());
    let mut stack: Vec<bool> = vec![]; // is this paren group inside an attribute?
    let mut attr_depth: Vec<usize> = vec![]; // bracket nesting of open attributes
    let mut brackets = 0usize;
    for (k, t) in out.iter().enumerate() {
        match t.as_str() {
            "[" => {
                brackets += 1;
                if k > 0 && (out[k - 1] == "#" || (out[k - 1] == "!" && k > 1 && out[k - 2] == "#")) {
                    attr_depth.push(brackets);
                }
                res.push(t.clone());
            }
            "]" => {
                if attr_depth.last() == Some(&brackets) {
                    attr_depth.pop();
                }
                brackets = brackets.saturating_sub(1);
                res.push(t.clone());
            }
            "(" => {
                stack.push(!attr_depth.is_empty());
                res.push(t.clone());
            }
            ")" => {
                let is_derive = stack.pop().unwrap_or(false);
                if is_derive && res.last().map(|s| s.as_str()) == Some(",") {
                    res.pop();
                }
                res.push(t.clone());
            }
            _ => res.push(t.clone()),
        }
    }
    res
}

/// Signature of all `use` runs in all scopes (DFS order): per item list, the
/// sequence of sorted leaf sets and the separators between them.
struct UseRuns {
    out: Vec<String>,
}

impl UseRuns {
    fn list<'x>(&mut self, items: impl Iterator<Item = Option<&'x ast::Item>>) {
        let mut cur: Vec<String> = vec![];
        let mut sig: Vec<String> = vec![];
        for it in items {
            match it {
                Some(i) if matches!(i.kind, ast::ItemKind::Use(..)) => {
                    if let ast::ItemKind::Use(t) = &i.kind {
                        let mut leaves = vec![];
                        usetree::flatten(t, &[], &mut leaves);
                        let vis = usetree::vis_str(&i.vis);
                        let attrs: Vec<String> = i
                            .attrs
                            .iter()
                            .filter(|a| a.style == ast::AttrStyle::Outer)
                            .map(|a| match &a.kind {
                                AttrKind::DocComment(_, s) => format!("doc:{}", s.as_str().trim()),
                                _ => usetree::attr_str(a),
                            })
                            .collect();
                        for l in leaves {
                            cur.push(format!("{vis}|{attrs:?}|{}|{:?}|{}", l.path, l.alias, l.glob));
                        }
                    }
                }
                _ => {
                    if !cur.is_empty() {
                        cur.sort();
                        cur.dedup();
                        sig.push(format!("{cur:?}"));
                        cur.clear();
                    }
                    if sig.last().map(|s| s.as_str()) != Some("|") {
                        sig.push("|".to_string());
                    }
                }
            }
        }
        if !cur.is_empty() {
            cur.sort();
            cur.dedup();
            sig.push(format!("{cur:?}"));
        }
        if sig.iter().any(|s| s != "|") {
            self.out.push(sig.join(" "));
        }
    }
}

impl<'ast> Visitor<'ast> for UseRuns {
    fn visit_crate(&mut self, c: &'ast ast::Crate) {
        self.list(c.items.iter().map(|i| Some(&**i)));
        visit::walk_crate(self, c);
    }
    fn visit_item(&mut self, i: &'ast ast::Item) {
        if let ast::ItemKind::Mod(_, _, ast::ModKind::Loaded(items, ..)) = &i.kind {
            self.list(items.iter().map(|i| Some(&**i)));
        }
        visit::walk_item(self, i);
    }
    fn visit_block(&mut self, b: &'ast ast::Block) {
        self.list(b.stmts.iter().map(|s| match &s.kind {
            ast::StmtKind::Item(i) => Some(&**i),
            _ => None,
        }));
        visit::walk_block(self, b);
    }
}

#[derive(Debug, Clone, PartialEq, Eq)]
pub struct Canon {
    pub tokens: Vec<String>,
    pub use_runs: Vec<String>,
}

pub fn canon(src: &str, edition: u16, opts: &Opts) -> Result<Canon, String> {
    parse::with_globals(edition, || {
        let psess = parse::silent_psess();
        let mut krate = parse::parse_crate_in(&psess, src)?;
        let mut ur = UseRuns { out: vec![] };
        ur.visit_crate(&krate);
        let mut n = Norm { opts, psess: &psess, depth: 0 };
        n.visit_crate(&mut krate);
        let printed = pprust::crate_to_string_for_macros(&krate);
        let ts = match rustc_parse::source_str_to_stream(
            &psess,
            rustc_span::FileName::Custom("canon".into()),
            printed.clone(),
            None,
        ) {
            Ok(ts) => ts,
            Err(ds) => {
                for d in ds {
                    d.cancel();
                }
                return Err(format!("pretty-printed form does not lex: {printed}"));
            }
        };
        let mut toks = vec![];
        flatten_tokens(&ts, &mut toks);
        let _ = smallvec![0u8; 0] as SmallVec<[u8; 1]>;
        let mut tokens = post_tokens(toks);
        if opts.rewrites_doc_comments {
            // the comment-rewriting options may re-flow doc comments: consecutive doc comments are
            // compared as one word sequence (C03's rule for rewritten comments)
            let mut merged: Vec<String> = vec![];
            for t in tokens {
                if let Some(body) = t.strip_prefix("doc:") {
                    let words: Vec<&str> = body.splitn(3, ':').nth(2).unwrap_or("").split_whitespace().collect();
                    match merged.last_mut() {
                        Some(last) if last.starts_with("docwords:") => {
                            last.push(' ');
                            last.push_str(&words.join(" "));
                        }
                        _ => merged.push(format!("docwords: {}", words.join(" "))),
                    }
                } else {
                    merged.push(t);
                }
            }
            tokens = merged;
        }
        Ok(Canon { tokens, use_runs: ur.out })
    })
}

/// First difference between two canonical forms, with context.
pub fn diff(a: &Canon, b: &Canon) -> Option<String> {
    if a.use_runs != b.use_runs {
        return Some(format!("use runs differ:\n  input:  {:?}\n  output: {:?}", a.use_runs, b.use_runs));
    }
    if a.tokens == b.tokens {
        return None;
    }
    let n = a.tokens.iter().zip(b.tokens.iter()).take_while(|(x, y)| x == y).count();
    let lo = n.saturating_sub(6);
    let ctx = |t: &Vec<String>| t[lo..(n + 6).min(t.len())].join(" ");
    Some(format!("token {n}: input  ...{}\n         output ...{}", ctx(&a.tokens), ctx(&b.tokens)))
}
