//! Configuration deviations: every formatting option set alone to each of
//! its non-default values (deviation 1), the interaction pairs (deviation 2)
//! and the per-family relevance table.

use crate::fmt::Cfg;

/// (option, non-default values). Numeric options at {small, large}.
pub static SINGLE: &[(&str, &[&str])] = &[
    ("hard_tabs", &["true"]),
    ("tab_spaces", &["2", "8"]),
    ("indent_style", &["Visual"]),
    ("use_small_heuristics", &["Off", "Max"]),
    ("fn_call_width", &["0", "30"]),
    ("attr_fn_like_width", &["0", "30"]),
    ("struct_lit_width", &["0", "40"]),
    ("struct_variant_width", &["0", "60"]),
    ("array_width", &["0", "30"]),
    ("chain_width", &["0", "30"]),
    ("single_line_if_else_max_width", &["0", "80"]),
    ("single_line_let_else_max_width", &["0", "80"]),
    ("wrap_comments", &["true"]),
    ("format_code_in_doc_comments", &["true"]),
    ("comment_width", &["20", "40"]),
    ("normalize_comments", &["true"]),
    ("normalize_doc_attributes", &["true"]),
    ("format_strings", &["true"]),
    ("format_macro_matchers", &["true"]),
    ("format_macro_bodies", &["false"]),
    ("hex_literal_case", &["Upper", "Lower"]),
    ("float_literal_trailing_zero", &["Always", "IfNoPostfix", "Never"]),
    ("empty_item_single_line", &["false"]),
    ("struct_lit_single_line", &["false"]),
    ("fn_single_line", &["true"]),
    ("where_single_line", &["true"]),
    ("imports_indent", &["Visual"]),
    ("imports_layout", &["Horizontal", "HorizontalVertical", "Vertical"]),
    ("imports_granularity", &["Crate", "Module", "Item", "One"]),
    ("group_imports", &["StdExternalCrate", "One"]),
    ("reorder_imports", &["false"]),
    ("reorder_modules", &["false"]),
    ("reorder_impl_items", &["true"]),
    ("type_punctuation_density", &["Compressed"]),
    ("space_before_colon", &["true"]),
    ("space_after_colon", &["false"]),
    ("spaces_around_ranges", &["true"]),
    ("binop_separator", &["Back"]),
    ("remove_nested_parens", &["false"]),
    ("combine_control_expr", &["false"]),
    ("short_array_element_width_threshold", &["0", "40"]),
    ("overflow_delimited_expr", &["true"]),
    ("struct_field_align_threshold", &["20"]),
    ("enum_discrim_align_threshold", &["20"]),
    ("match_arm_blocks", &["false"]),
    ("match_arm_leading_pipes", &["Always", "Preserve"]),
    ("match_arm_indent", &["false"]),
    ("force_multiline_blocks", &["true"]),
    ("fn_params_layout", &["Compressed", "Vertical"]),
    ("brace_style", &["AlwaysNextLine", "PreferSameLine"]),
    ("control_brace_style", &["ClosingNextLine", "AlwaysNextLine"]),
    ("trailing_semicolon", &["false"]),
    ("trailing_comma", &["Always", "Never"]),
    ("match_block_trailing_comma", &["true"]),
    ("blank_lines_upper_bound", &["0", "3"]),
    ("blank_lines_lower_bound", &["1"]),
    ("inline_attribute_width", &["50"]),
    ("merge_derives", &["false"]),
    ("use_try_shorthand", &["true"]),
    ("use_field_init_shorthand", &["true"]),
    ("force_explicit_abi", &["false"]),
    ("condense_wildcard_suffixes", &["true"]),
    ("error_on_line_overflow", &["true"]),
    ("error_on_unformatted", &["true"]),
    ("newline_style", &["Unix", "Windows"]),
];

/// Options excluded from C01's alphabet (documented in DESIGN.md):
/// reorder_impl_items reorders items, which the closed set does not list.
pub static EXCLUDED_C01: &[&str] = &["reorder_impl_items"];

/// Options that interact (share code paths); pairs are explored in the
/// thorough tier.
pub static INTERACT: &[&str] = &[
    "indent_style",
    "brace_style",
    "control_brace_style",
    "fn_params_layout",
    "where_single_line",
    "trailing_comma",
    "match_arm_blocks",
    "match_block_trailing_comma",
    "force_multiline_blocks",
    "fn_single_line",
    "empty_item_single_line",
    "struct_lit_single_line",
    "hard_tabs",
    "tab_spaces",
    "use_small_heuristics",
    "overflow_delimited_expr",
    "combine_control_expr",
    "imports_granularity",
    "imports_layout",
    "group_imports",
    "normalize_comments",
    "wrap_comments",
    "format_strings",
    "format_macro_matchers",
];

/// Which options can affect which corpus family (union with GLOBAL).
pub fn relevant(family: &str) -> &'static [&'static str] {
    match family {
        "fn" => &[
            "fn_params_layout", "brace_style", "where_single_line", "fn_single_line",
            "force_explicit_abi", "trailing_comma", "indent_style", "empty_item_single_line",
            "space_before_colon", "space_after_colon", "type_punctuation_density", "fn_call_width",
        ],
        "struct" | "enum" => &[
            "brace_style", "struct_variant_width", "struct_field_align_threshold",
            "enum_discrim_align_threshold", "trailing_comma", "empty_item_single_line",
            "merge_derives", "indent_style", "space_before_colon", "space_after_colon",
            "where_single_line", "attr_fn_like_width", "inline_attribute_width",
            "normalize_doc_attributes",
        ],
        "impl" | "trait" => &[
            "brace_style", "where_single_line", "empty_item_single_line", "indent_style",
            "type_punctuation_density", "fn_single_line", "trailing_comma", "reorder_impl_items",
        ],
        "misc" => &[
            "brace_style", "format_macro_matchers", "format_macro_bodies", "indent_style",
            "inline_attribute_width", "normalize_doc_attributes", "attr_fn_like_width",
            "type_punctuation_density", "reorder_modules", "empty_item_single_line",
            "wrap_comments", "format_code_in_doc_comments",
        ],
        "use" => &[
            "imports_indent", "imports_layout", "imports_granularity", "group_imports",
            "reorder_imports", "reorder_modules", "indent_style",
        ],
        "let" => &[
            "single_line_let_else_max_width", "indent_style", "space_before_colon",
            "space_after_colon", "struct_lit_width", "chain_width", "fn_call_width",
            "single_line_if_else_max_width", "control_brace_style", "type_punctuation_density",
        ],
        "expr-stmt" => &[
            "control_brace_style", "single_line_if_else_max_width", "match_arm_blocks",
            "match_arm_leading_pipes", "match_arm_indent", "match_block_trailing_comma",
            "force_multiline_blocks", "trailing_semicolon", "trailing_comma", "indent_style",
            "combine_control_expr", "fn_call_width", "brace_style", "binop_separator",
        ],
        "expr" => &[
            "indent_style", "fn_call_width", "chain_width", "array_width", "struct_lit_width",
            "struct_lit_single_line", "use_small_heuristics", "overflow_delimited_expr",
            "combine_control_expr", "remove_nested_parens", "binop_separator",
            "spaces_around_ranges", "short_array_element_width_threshold", "trailing_comma",
            "use_try_shorthand", "use_field_init_shorthand", "hex_literal_case",
            "float_literal_trailing_zero", "format_strings", "force_multiline_blocks",
            "match_arm_blocks", "single_line_if_else_max_width", "control_brace_style",
            "match_block_trailing_comma",
        ],
        "type" => &[
            "type_punctuation_density", "indent_style", "force_explicit_abi", "trailing_comma",
            "space_before_colon", "space_after_colon", "fn_call_width",
        ],
        "pat" => &[
            "condense_wildcard_suffixes", "indent_style", "trailing_comma", "struct_lit_width",
            "match_arm_leading_pipes", "spaces_around_ranges",
        ],
        _ => &[],
    }
}

pub static GLOBAL: &[&str] = &["hard_tabs", "tab_spaces", "use_small_heuristics"];

/// Deviation-1 configurations relevant to `family` (restricted = quick tier).
pub fn deviations1(family: &str, base: &Cfg, restricted: bool) -> Vec<Cfg> {
    let rel = relevant(family);
    let mut out = vec![];
    for (k, vals) in SINGLE {
        if restricted && !(rel.contains(k) || GLOBAL.contains(k)) {
            continue;
        }
        for v in *vals {
            out.push(base.clone().with(k, v));
        }
    }
    out
}

/// Deviation-2 configurations: pairs over the interaction subset that are
/// relevant to the family (or global).
pub fn deviations2(family: &str, base: &Cfg) -> Vec<Cfg> {
    let rel = relevant(family);
    let opts: Vec<&(&str, &[&str])> = SINGLE
        .iter()
        .filter(|(k, _)| INTERACT.contains(k) && (rel.contains(k) || GLOBAL.contains(k)))
        .collect();
    let mut out = vec![];
    for i in 0..opts.len() {
        for j in i + 1..opts.len() {
            for v in opts[i].1 {
                for w in opts[j].1 {
                    out.push(base.clone().with(opts[i].0, v).with(opts[j].0, w));
                }
            }
        }
    }
    out
}
