//! Corpus A: templates -> forms (deviation-bounded slot expansion) ->
//! programs (form placed in a context) -> layouts. Everything is
//! deterministic and index-addressable.

use crate::lex::{self, Class, Tok};

pub const ATOMS: &str = include_str!("../corpus/atoms.txt");

#[derive(Debug, Clone, Copy, PartialEq, Eq, Hash, PartialOrd, Ord)]
pub enum AKind {
    Item,
    Assoc,
    Stmt,
    Expr,
    Type,
    Pat,
    File,
}

#[derive(Debug, Clone)]
pub struct Template {
    pub family: String,
    pub kind: AKind,
    pub index: usize,
    /// literal parts and slots, alternating: parts[0] slot[0] parts[1] ...
    pub parts: Vec<String>,
    pub slots: Vec<Vec<String>>,
}

pub fn parse_templates(src: &str) -> Vec<Template> {
    let mut out = Vec::new();
    let mut family = String::new();
    let mut kind = AKind::Item;
    for line in src.lines() {
        if line.starts_with('#') && !line.starts_with("#[") && !line.starts_with("#!") {
            continue;
        }
        if line.trim().is_empty() {
            continue;
        }
        if let Some(h) = line.strip_prefix("== ") {
            let mut it = h.split_whitespace();
            family = it.next().unwrap().to_string();
            kind = match it.next().unwrap() {
                "item" => AKind::Item,
                "assoc" => AKind::Assoc,
                "stmt" => AKind::Stmt,
                "expr" => AKind::Expr,
                "type" => AKind::Type,
                "pat" => AKind::Pat,
                "file" => AKind::File,
                k => panic!("bad kind {k}"),
            };
            continue;
        }
        let line = line.replace('␤', "\n").replace('␍', "\r");
        let mut parts = vec![String::new()];
        let mut slots: Vec<Vec<String>> = vec![];
        let mut in_slot = false;
        for ch in line.chars() {
            match ch {
                '⟦' => {
                    in_slot = true;
                    slots.push(vec![String::new()]);
                }
                '⟧' => {
                    in_slot = false;
                    parts.push(String::new());
                }
                '¦' if in_slot => slots.last_mut().unwrap().push(String::new()),
                c if in_slot => slots.last_mut().unwrap().last_mut().unwrap().push(c),
                c => parts.last_mut().unwrap().push(c),
            }
        }
        out.push(Template {
            family: family.clone(),
            kind,
            index: out.len(),
            parts,
            slots,
        });
    }
    out
}

impl Template {
    pub fn render(&self, choice: &[usize]) -> String {
        let mut s = String::new();
        for (i, p) in self.parts.iter().enumerate() {
            s.push_str(p);
            if i < self.slots.len() {
                s.push_str(&self.slots[i][choice[i]]);
            }
        }
        s
    }
    /// All slot choices with at most `k` slots deviating from value 0,
    /// base first, then single deviations in slot order, then pairs.
    pub fn choices(&self, k: usize) -> Vec<Vec<usize>> {
        let n = self.slots.len();
        let mut out = vec![vec![0; n]];
        if k >= 1 {
            for i in 0..n {
                for v in 1..self.slots[i].len() {
                    let mut c = vec![0; n];
                    c[i] = v;
                    out.push(c);
                }
            }
        }
        if k >= 2 {
            for i in 0..n {
                for j in i + 1..n {
                    for v in 1..self.slots[i].len() {
                        for w in 1..self.slots[j].len() {
                            let mut c = vec![0; n];
                            c[i] = v;
                            c[j] = w;
                            out.push(c);
                        }
                    }
                }
            }
        }
        out
    }
}

#[derive(Debug, Clone)]
pub struct Context {
    pub name: &'static str,
    pub pre: &'static str,
    pub post: &'static str,
    /// indentation (in block levels) at which the atom ends up
    pub depth: usize,
}

const fn cx(name: &'static str, pre: &'static str, post: &'static str, depth: usize) -> Context {
    Context { name, pre, post, depth }
}

pub static ITEM_CTX: &[Context] = &[
    cx("top", "", "", 0),
    cx("mod", "mod m { ", " }", 1),
    cx("fnbody", "fn outer() { ", " }", 1),
    cx("mod3", "mod m { mod n { mod o { ", " } } }", 3),
];
pub static ASSOC_CTX: &[Context] = &[
    cx("impl", "impl S { ", " }", 1),
    cx("trait", "trait T { ", " }", 1),
    cx("implfor", "impl T for S { ", " }", 1),
    cx("modimpl", "mod m { impl S { ", " } }", 2),
];
pub static STMT_CTX: &[Context] = &[
    cx("fn", "fn f() { ", " }", 1),
    cx("if", "fn f() { if c { ", " } }", 2),
    cx("deep5", "fn f() { if c { loop { while d { for e in g { ", " } } } } }", 5),
    cx("closure", "fn f() { g(|| { ", " }); }", 2),
    cx("armblock", "fn f() { match m { _ => { ", " } } }", 3),
    cx("method", "impl S { fn f(&self) { ", " } }", 2),
    cx("macrodef", "macro_rules! mm { () => { ", " }; }", 2),
    cx("deep6", "mod m { impl S { fn f() { if c { loop { match d { _ => { ", " } } } } } } }", 7),
];
pub static EXPR_CTX: &[Context] = &[
    cx("let", "fn f() { let x = ", "; }", 1),
    cx("tail", "fn f() -> T { ", " }", 1),
    cx("arg", "fn f() { g(", "); }", 1),
    cx("lastarg", "fn f() { some_function(first_arg, ", "); }", 1),
    cx("arm", "fn f() { match m { A => ", ", _ => {} } }", 2),
    cx("closurebody", "fn f() { g(|y| ", "); }", 1),
    cx("chainarg", "fn f() { a.b(", ").c(); }", 1),
    cx("macroarg", "fn f() { foo!(", "); }", 1),
    cx("static", "static X: T = ", ";", 0),
    cx("ret", "fn f() { return ", "; }", 1),
    cx("binop", "fn f() { let x = lhs_value + ", "; }", 1),
    cx("cond", "fn f() { if ", " { a } }", 1),
    cx("deep4let", "fn f() { if a { if b { if c { let x = ", "; } } } }", 4),
    cx("field", "fn f() { S { a: ", " }; }", 1),
    cx("index", "fn f() { a[", "]; }", 1),
    cx("assign", "fn f() { self.some_field = ", "; }", 1),
];
pub static TYPE_CTX: &[Context] = &[
    cx("alias", "type A = ", ";", 0),
    cx("param", "fn f(x: ", ") {}", 0),
    cx("ret", "fn f() -> ", " {}", 0),
    cx("let", "fn f() { let x: ", "; }", 1),
    cx("field", "struct S { a: ", " }", 1),
    cx("generic", "fn f() { let x: Vec<", ">; }", 1),
    cx("cast", "fn f() { let x = y as ", "; }", 1),
    cx("implfor", "impl T for ", " {}", 0),
    cx("bound", "fn f<T>() where T: A<", "> {}", 0),
];
pub static PAT_CTX: &[Context] = &[
    cx("let", "fn f() { let ", " = x; }", 1),
    cx("arm", "fn f() { match x { ", " => {} } }", 2),
    cx("param", "fn f(", ": T) {}", 0),
    cx("iflet", "fn f() { if let ", " = x {} }", 1),
    cx("for", "fn f() { for ", " in x {} }", 1),
    cx("closure", "fn f() { g(|", "| 1); }", 1),
    cx("nested", "fn f() { let Some(", ") = x; }", 1),
];
pub static FILE_CTX: &[Context] = &[cx("file", "", "", 0)];

pub fn contexts(kind: AKind) -> &'static [Context] {
    match kind {
        AKind::Item => ITEM_CTX,
        AKind::Assoc => ASSOC_CTX,
        AKind::Stmt => STMT_CTX,
        AKind::Expr => EXPR_CTX,
        AKind::Type => TYPE_CTX,
        AKind::Pat => PAT_CTX,
        AKind::File => FILE_CTX,
    }
}

/// A program of corpus A in its base (one-line, L0) layout.
#[derive(Debug, Clone)]
pub struct Program {
    pub family: String,
    pub kind: AKind,
    pub template: usize,
    pub choice: Vec<usize>,
    pub ctx: &'static str,
    pub depth: usize,
    pub text: String,
    /// byte span of the atom inside `text`
    pub atom: (usize, usize),
}

impl Program {
    pub fn key(&self) -> String {
        format!(
            "{}#{}[{}]@{}",
            self.family,
            self.template,
            self.choice.iter().map(|c| c.to_string()).collect::<Vec<_>>().join(","),
            self.ctx
        )
    }
}

/// Enumerate programs: template x choice (deviation <= k) x context.
/// `ctx_limit` restricts to the first n contexts of each kind (quick tiers).
pub fn programs(k: usize, ctx_limit: usize, family_filter: Option<&dyn Fn(&Template) -> bool>) -> Vec<Program> {
    let ts = parse_templates(ATOMS);
    let mut out = Vec::new();
    for t in &ts {
        if let Some(f) = family_filter {
            if !f(t) {
                continue;
            }
        }
        for choice in t.choices(k) {
            let atom = t.render(&choice);
            for (ci, c) in contexts(t.kind).iter().enumerate() {
                // the base form visits every context; deviated forms only the first ctx_limit
                let is_base = choice.iter().all(|&v| v == 0);
                if !is_base && ci >= ctx_limit {
                    continue;
                }
                let text = format!("{}{}{}\n", c.pre, atom, c.post);
                out.push(Program {
                    family: t.family.clone(),
                    kind: t.kind,
                    template: t.index,
                    choice: choice.clone(),
                    ctx: c.name,
                    depth: c.depth,
                    atom: (c.pre.len(), c.pre.len() + atom.len()),
                    text,
                });
            }
        }
    }
    out
}

// ---------------------------------------------------------------- layouts

#[derive(Debug, Clone, Copy, PartialEq, Eq, Hash, PartialOrd, Ord)]
pub enum Layout {
    /// as written (single spaces, one line)
    L0,
    /// newline at every breakable gap
    LAll,
    /// no optional whitespace
    LNone,
    /// newline at the n-th breakable gap only
    L1(usize),
    /// every gap gets "\n\n\n" (blank-line runs) -- used by C08
    LBlank(usize),
    /// LAll with odd indentation (tabs and spaces mixed)
    LTabs,
}

impl Layout {
    pub fn label(&self) -> String {
        match self {
            Layout::L0 => "L0".into(),
            Layout::LAll => "LALL".into(),
            Layout::LNone => "LNONE".into(),
            Layout::L1(n) => format!("L1:{n}"),
            Layout::LBlank(n) => format!("LBLANK:{n}"),
            Layout::LTabs => "LTABS".into(),
        }
    }
}

fn code_toks(src: &str) -> Vec<Tok> {
    lex::lex(src).into_iter().filter(|t| t.class != Class::Ws).collect()
}

/// A gap between two consecutive non-whitespace tokens.
#[derive(Debug, Clone, Copy)]
pub struct Gap {
    /// end of the left token / start of the right token in the L0 text
    pub left_end: usize,
    pub right_start: usize,
    pub has_ws: bool,
    /// a line break may be inserted here without changing the token sequence
    pub breakable: bool,
    /// existing whitespace may be removed here
    pub removable: bool,
}

fn wordish(t: &Tok) -> bool {
    t.class == Class::Word
}

pub fn gaps(src: &str) -> Vec<Gap> {
    let toks = code_toks(src);
    let mut out = Vec::new();
    for w in toks.windows(2) {
        let (a, b) = (&w[0], &w[1]);
        let has_ws = a.end < b.start;
        let both_punct = a.class == Class::Punct && b.class == Class::Punct;
        let a_comment = matches!(a.class, Class::Comment | Class::DocComment);
        let b_comment = matches!(b.class, Class::Comment | Class::DocComment);
        // never touch gaps next to comments (line comments need their newline)
        let breakable = !a_comment && !b_comment && (has_ws || !both_punct) && {
            // `$x`, `r#`, `'a` are lexed as single tokens or must stay glued:
            let at = a.text(src);
            let bt = b.text(src);
            !(at == "$" || at == "#" && bt == "!" || at == "'" )
                // a number followed by `.`: `1 .` is fine but `1.` + ident would re-lex
                && !(has_ws == false && wordish(a) && bt == ".")
                && !(has_ws == false && at == "." && wordish(b))
                && !(has_ws == false && at == "!" && b.class == Class::Open)
                && !(has_ws == false && wordish(a) && bt == "!")
        };
        let removable = has_ws
            && !a_comment
            && !b_comment
            && !(wordish(a) && wordish(b))
            && !both_punct
            && !(wordish(a) && b.text(src) == "." && a.text(src).chars().next().map_or(false, |c| c.is_ascii_digit()))
            && !(a.text(src) == "." && wordish(b) && false);
        out.push(Gap {
            left_end: a.end,
            right_start: b.start,
            has_ws,
            breakable,
            removable,
        });
    }
    out
}

pub fn count_breakable(src: &str) -> usize {
    gaps(src).iter().filter(|g| g.breakable).count()
}

/// Re-lay out `src` (an L0 text). Token sequence is unchanged by construction;
/// callers still validate with the lexer (`same_tokens`).
pub fn layout(src: &str, l: Layout) -> String {
    if l == Layout::L0 {
        return src.to_string();
    }
    let gs = gaps(src);
    let mut out = String::with_capacity(src.len() * 2);
    let mut pos = 0usize;
    let mut bi = 0usize;
    for g in &gs {
        out.push_str(&src[pos..g.left_end]);
        let orig = &src[g.left_end..g.right_start];
        let this_b = if g.breakable {
            bi += 1;
            Some(bi - 1)
        } else {
            None
        };
        let orig_has_nl = orig.contains('\n');
        match l {
            Layout::L0 => unreachable!(),
            Layout::LAll => {
                if g.breakable {
                    out.push('\n');
                } else {
                    out.push_str(orig);
                }
            }
            Layout::LTabs => {
                if g.breakable {
                    out.push_str(if bi % 2 == 0 { "\n\t  " } else { "\n \t" });
                } else {
                    out.push_str(orig);
                }
            }
            Layout::LNone => {
                if g.removable && !orig_has_nl {
                    // drop
                } else {
                    out.push_str(orig);
                }
            }
            Layout::L1(n) => {
                if this_b == Some(n) {
                    out.push('\n');
                } else {
                    out.push_str(orig);
                }
            }
            Layout::LBlank(n) => {
                if g.breakable {
                    for _ in 0..=n {
                        out.push('\n');
                    }
                } else {
                    out.push_str(orig);
                }
            }
        }
        pos = g.right_start;
    }
    out.push_str(&src[pos..]);
    out
}

/// Token-sequence equality (text of every non-trivia token).
pub fn same_tokens(a: &str, b: &str) -> bool {
    lex::code_tokens(a) == lex::code_tokens(b)
}

// ------------------------------------------------------ comment insertion

#[derive(Debug, Clone, Copy, PartialEq, Eq, Hash, PartialOrd, Ord)]
pub enum CStyle {
    /// `// cN` on its own line before the position
    LineOwn,
    /// ` // cN` then newline (end of line)
    LineEol,
    /// `/* cN */` inline
    BlockInline,
    /// `/* cN */` on its own line
    BlockOwn,
    /// two-line block comment on its own lines
    BlockMulti,
    /// `//// cN` (four slashes: not a doc comment)
    Line4,
    /// `/*** cN */` (not a doc comment)
    Block3,
    /// two-line `//` paragraph whose first line is far too long (re-flowed by wrap_comments)
    LongPara,
    /// the same as a `///` doc comment
    LongDoc,
    /// `// cN` on its own line at column 0, followed by a blank line (group boundary after the comment)
    LineOwnBlankAfter,
    /// a blank line, then `// cN` on its own line at column 0
    LineOwnBlankBefore,
}

pub static CSTYLES: &[CStyle] = &[
    CStyle::LineOwn,
    CStyle::LineEol,
    CStyle::BlockInline,
    CStyle::BlockOwn,
    CStyle::BlockMulti,
    CStyle::Line4,
    CStyle::Block3,
];

pub fn comment_text(style: CStyle, n: usize) -> String {
    match style {
        CStyle::LineOwn => format!("\n// c{n} here\n"),
        CStyle::LineEol => format!(" // c{n} here\n"),
        CStyle::BlockInline => format!(" /* c{n} here */ "),
        CStyle::BlockOwn => format!("\n/* c{n} here */\n"),
        CStyle::BlockMulti => format!("\n/* c{n} first\n   second line */\n"),
        CStyle::Line4 => format!("\n//// c{n} here\n"),
        CStyle::Block3 => format!(" /*** c{n} here */ "),
        CStyle::LineOwnBlankAfter => format!("\n// c{n} here\n\n"),
        CStyle::LineOwnBlankBefore => format!("\n\n// c{n} here\n"),
        CStyle::LongPara => format!(
            "\n// c{n} Lorem ipsum dolor sit amet, consectetur adipiscing elit, sed do eiusmod tempor incididunt ut labore et dolore magna aliqua\n// Ut enim ad minim veniam, quis nostrud exercitation ullamco laboris nisi ut aliquip ex ea commodo consequat.\n"
        ),
        CStyle::LongDoc => format!(
            "\n/// d{n} Lorem ipsum dolor sit amet, consectetur adipiscing elit, sed do eiusmod tempor incididunt ut labore et dolore magna aliqua\n/// Ut enim ad minim veniam, quis nostrud exercitation ullamco laboris nisi ut aliquip ex ea commodo consequat.\n"
        ),
    }
}

/// Insert comments (offset, style) into `src`; offsets refer to `src`.
pub fn insert_comments(src: &str, ins: &[(usize, CStyle)]) -> String {
    let mut v: Vec<(usize, usize, CStyle)> = ins.iter().enumerate().map(|(i, (o, s))| (*o, i, *s)).collect();
    v.sort();
    let mut out = String::with_capacity(src.len() + 32 * ins.len());
    let mut pos = 0;
    for (o, i, s) in v {
        out.push_str(&src[pos..o]);
        if matches!(s, CStyle::LineOwnBlankAfter | CStyle::LineOwnBlankBefore) {
            // the comment line follows the previous element's line directly (no blanks left behind it)
            let mut indent = String::new();
            while out.ends_with(' ') || out.ends_with('\t') {
                indent.insert(0, out.pop().unwrap());
            }
            let t = comment_text(s, i + 1);
            // already at the start of a line: the style's own leading newline would add a blank line, and the
            // element keeps its indentation after the comment
            if out.ends_with('\n') {
                out.push_str(&t[1..]);
                out.push_str(&indent);
            } else {
                out.push_str(&t);
            }
            pos = o;
            continue;
        }
        out.push_str(&comment_text(s, i + 1));
        pos = o;
    }
    out.push_str(&src[pos..]);
    out
}
