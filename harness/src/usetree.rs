//! Leaf sets of `use` declarations from the independent parse (C10, C11, C01).

use rustc_ast::ast;
use rustc_ast_pretty::pprust;
use rustc_session::parse::ParseSess;

use crate::positions::{item_kind_name, span_off};

#[derive(Debug, Clone, PartialEq, Eq, PartialOrd, Ord, Hash)]
pub struct Leaf {
    /// full path, segments joined by `::` (leading `::` kept as empty first segment)
    pub path: String,
    /// `Some("_")` for underscore imports
    pub alias: Option<String>,
    pub glob: bool,
}

fn path_str(p: &ast::Path) -> Vec<String> {
    p.segments
        .iter()
        .map(|s| {
            let n = s.ident.name.as_str().to_string();
            if n == "{{root}}" {
                String::new()
            } else if s.ident.is_raw_guess() {
                format!("r#{n}")
            } else {
                n
            }
        })
        .collect()
}

pub fn flatten(tree: &ast::UseTree, prefix: &[String], out: &mut Vec<Leaf>) {
    let mut path = prefix.to_vec();
    path.extend(path_str(&tree.prefix));
    match &tree.kind {
        ast::UseTreeKind::Simple(rename) => {
            // `p::{self}` / `p::self` denote `p`
            let mut alias = rename.map(|i| i.name.as_str().to_string());
            if path.last().map(|s| s.as_str()) == Some("self") && path.len() > 1 {
                path.pop();
                // `p::{self as q}` renames p
            }
            if let (Some(a), Some(last)) = (&alias, path.last()) {
                if a == last {
                    // `x as x` binds the same name as `x`
                    alias = None;
                }
            }
            if alias.as_deref() == Some("") {
                alias = None;
            }
            out.push(Leaf {
                path: path.join("::"),
                alias,
                glob: false,
            });
        }
        ast::UseTreeKind::Glob => out.push(Leaf {
            path: path.join("::"),
            alias: None,
            glob: true,
        }),
        ast::UseTreeKind::Nested { items, .. } => {
            for (t, _) in items {
                flatten(t, &path, out);
            }
        }
    }
}

#[derive(Debug, Clone, PartialEq, Eq, PartialOrd, Ord)]
pub struct ItemInfo {
    pub kind: &'static str,
    pub vis: String,
    /// outer attributes and doc comments, pretty-printed, in order
    pub attrs: Vec<String>,
    /// sorted leaves for `use`; the name (and alias) for `mod x;` / `extern crate`
    pub leaves: Vec<Leaf>,
    pub name: String,
    pub lo: usize,
    pub hi: usize,
}

pub fn vis_str(v: &ast::Visibility) -> String {
    match &v.kind {
        ast::VisibilityKind::Public => "pub".into(),
        ast::VisibilityKind::Inherited => String::new(),
        ast::VisibilityKind::Restricted { path, .. } => {
            // `pub(in crate)` == `pub(crate)` (spelling of restricted visibility)
            format!("pub({})", path_str(path).join("::"))
        }
    }
}

pub fn attr_str(a: &ast::Attribute) -> String {
    let s = pprust::attribute_to_string(a);
    // whitespace-insensitive: compare the token sequence
    crate::lex::code_tokens(&s).join(" ")
}

/// Items of a module in source order.
pub fn items_info(items: &[rustc_ast::ptr::P<ast::Item>], psess: &ParseSess) -> Vec<ItemInfo> {
    items
        .iter()
        .map(|i| {
            let mut leaves = vec![];
            let mut name = String::new();
            match &i.kind {
                ast::ItemKind::Use(t) => {
                    flatten(t, &[], &mut leaves);
                    leaves.sort();
                }
                ast::ItemKind::ExternCrate(orig, ident) => {
                    name = match orig {
                        Some(o) => format!("{} as {}", o.as_str(), ident.name.as_str()),
                        None => ident.name.as_str().to_string(),
                    };
                }
                ast::ItemKind::Mod(_, ident, _) => name = ident.name.as_str().to_string(),
                k => {
                    name = k.ident().map(|i| i.name.as_str().to_string()).unwrap_or_default();
                }
            }
            let (mut lo, hi) = span_off(psess, i.span);
            for a in i.attrs.iter() {
                let (alo, _) = span_off(psess, a.span);
                lo = lo.min(alo);
            }
            ItemInfo {
                kind: item_kind_name(&i.kind),
                vis: vis_str(&i.vis),
                attrs: i
                    .attrs
                    .iter()
                    .filter(|a| a.style == ast::AttrStyle::Outer)
                    .map(attr_str)
                    .collect(),
                leaves,
                name,
                lo,
                hi,
            }
        })
        .collect()
}

pub fn crate_items(src: &str, edition: u16) -> Result<Vec<ItemInfo>, String> {
    crate::parse::with_crate(src, edition, |k, ps| items_info(&k.items, ps))
}
