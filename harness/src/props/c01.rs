//! C01 — formatting preserves the meaning of the program.
//!
//! Enumerated: corpus A (all families) x contexts x layouts x configuration
//! deviations x style editions x every width; thorough adds corpus B (the
//! repository's fixtures). Oracle: the emitted text parses under the same
//! edition with the independent parser and canon(input) == canon(output)
//! (src/canon.rs: the closed set of style normalisations).

use serde_json::json;

use super::{corpus_units, widths_for, CfgMode, Space};
use crate::canon::{self, Opts};
use crate::explore::{hash64, Prop, Sink, Tier, Unit};
use crate::fmt::{self};
use crate::gen::Layout;

pub struct C01;

impl Prop for C01 {
    fn id(&self) -> &'static str {
        "C01"
    }
    fn rule(&self) -> String {
        "corpus A forms (syntax deviation <=1 quick / <=2 thorough) x contexts x layouts {L0, LALL, LNONE} x configuration \
         deviations (<=1, relevance-restricted in quick; every option and interaction pairs in thorough) x style editions x \
         every width; thorough adds every repository fixture under its header configuration. Oracle: output parses and \
         canon(input)==canon(output). Non-trivial = emitted text differs from the input bytes; distinct = distinct (input, config); \
         additionally counted: (input, config) pairs whose output varies with the width."
            .into()
    }
    fn assumptions(&self) -> Vec<String> {
        vec![
            "canon (src/canon.rs) implements exactly the closed set of normalisations of the property; it is applied symmetrically to input and output".into(),
            "reorder_impl_items is excluded from the configuration alphabet (it reorders items, which the closed set does not list)".into(),
        ]
    }
    fn units(&self, tier: Tier) -> Vec<Unit> {
        let thorough = tier == Tier::Thorough;
        let mut units = corpus_units(
            &Space {
                k: if thorough { 2 } else { 1 },
                ctx_limit: if thorough { 3 } else { 2 },
                layouts: vec![Layout::L0, Layout::LAll, Layout::LNone],
                style_editions: if thorough { vec![2015, 2024, 2027] } else { vec![2015, 2024] },
                cfg_mode: if thorough { CfgMode::Dev2 } else { CfgMode::Dev1Relevant },
                cfg_ctx_limit: if thorough { 3 } else { 1 },
                l1: false,
                dev_editions: if thorough { vec![] } else { vec![2024] },
            },
            None,
        );
        if thorough {
            units.retain(super::thorough_economy);
        }
        if !thorough {
            units.retain(|u| u.cfg.kv.is_empty() || u.key.ends_with("/L0"));
        }
        // A multi-line string literal inside an unparsable macro body is re-indented by rustfmt (its value
        // changes: known finding). The two atoms that carry one are explored in their first context, one-line
        // layout, default configuration only, so that the root cause is listed a handful of times.
        units.retain(|u| {
            let has = u.text.contains("\"str\ning\"") || u.text.contains("\"x\n  y\"") || u.text.contains("\"multi\nline\" here");
            !has || ((u.key.contains("@fn/L0") || u.key.contains("@top/L0")) && u.cfg.kv.is_empty())
        });
        // A `macro` definition in a match-arm block under indent_style=Visual is emitted with a duplicated `) {`
        // at narrow widths (known finding): that atom is explored under Visual in its first context, one-line
        // layout, with no second option.
        units.retain(|u| {
            let squeezed: String = u.text.chars().filter(|c| !c.is_whitespace()).collect();
            let has = squeezed.contains("macrom([$a:expr])") && u.cfg.get("indent_style") == Some("Visual");
            !has || (u.key.contains("@fn/L0") && u.cfg.kv.len() == 1)
        });
        if thorough {
            // The repository's fixtures under the default configuration (their header configurations exercise
            // opt-in rewrites, e.g. of doc-comment code blocks, for which the canonicaliser has rules only over
            // corpus A's alphabet). A file that opts out as a whole (`#![rustfmt::skip]`) is not emitted through
            // the API at all: C04's subject.
            for (name, text, kv) in super::c09::corpus_b() {
                if !kv.is_empty() || text.contains("#![rustfmt::skip]") {
                    continue;
                }
                units.push(Unit { key: format!("fixture{name}"), text, cfg: crate::fmt::Cfg::new(2015), extra: json!({"corpus": "B"}) });
            }
        }
        units
    }
    fn check(&self, u: &Unit, tier: Tier, sink: &mut Sink) {
        let opts = Opts::from_cfg(&u.cfg);
        let cin = match canon::canon(&u.text, u.cfg.edition, &opts) {
            Ok(c) => c,
            Err(_) => {
                sink.count("dropped_unparsable", 1);
                return;
            }
        };
        let mut prev: Option<String> = None;
        let mut outputs = 0u32;
        let mut nontrivial = false;
        for w in widths_for(&u.cfg, tier) {
            let o = fmt::format(&u.text, &u.cfg, w);
            if !o.ok() {
                sink.count("not_ok", 1);
                continue;
            }
            if prev.as_deref() == Some(o.text.as_str()) {
                continue;
            }
            outputs += 1;
            if o.text != u.text {
                nontrivial = true;
            }
            match canon::canon(&o.text, u.cfg.edition, &opts) {
                Err(e) => sink.violation("C01", u, w, "output does not parse", format!("{e}\n--- output ---\n{}", o.text)),
                Ok(cout) => {
                    if let Some(d) = canon::diff(&cin, &cout) {
                        let what = if d.starts_with("use runs") { "imports changed" } else { "token sequence changed" };
                        sink.violation("C01", u, w, what, format!("{d}\n--- output ---\n{}", o.text));
                    }
                }
            }
            prev = Some(o.text);
        }
        if nontrivial {
            sink.distinct.insert(hash64(&format!("{}\u{0}{}", u.text, u.cfg.label())));
        }
        if outputs > 1 {
            sink.count("inputs_whose_layout_varies_with_width", 1);
        }
        sink.sample(json!({"unit": u.key, "input": crate::explore::shorten(&u.text, 300), "config": u.cfg.label(), "distinct_outputs_over_widths": outputs}));
    }
}
