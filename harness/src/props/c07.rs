//! C07 — line-width and trailing-whitespace diagnostics are exact.
//!
//! Enumerated: diagnostic-forcing targets (unbreakable long tokens, strings,
//! comments, verbatim macro bodies, skipped nodes, each with and without
//! trailing blanks / tabs) x a preceding item that shrinks / grows / keeps its
//! line count x tab_spaces x hard_tabs x the four error-flag combinations x
//! every width. Oracle: independent recomputation over the emitted text
//! against the (file, line, kind) entries of the report (hook H1).

use serde_json::json;

use super::widths_for;
use crate::explore::{hash64, Prop, Sink, Tier, Unit};
use crate::fmt::{self, Cfg};
use crate::lex::{self, Class};

pub struct C07;

#[derive(Debug, Clone, Copy, PartialEq, Eq)]
enum Exp {
    Required,
    Forbidden,
    Either,
}

struct Target {
    name: &'static str,
    text: String,
    /// verbatim text of a `#[rustfmt::skip]` node without its attribute line
    skipped_body: Option<String>,
    /// lines inside this verbatim macro text are judged leniently
    soup: Option<String>,
}

fn targets() -> Vec<Target> {
    let id = |n: usize| "x".repeat(n);
    let mut v = vec![];
    let mut t = |name: &'static str, text: String, skipped_body: Option<String>, soup: Option<String>| {
        v.push(Target { name, text, skipped_body, soup });
    };
    t("long-ident", format!("fn f() {{\n    let a = {};\n}}\n", id(50)), None, None);
    t("long-path-call", format!("fn f() {{\n    {}::{}({});\n}}\n", id(20), id(20), id(20)), None, None);
    t("deep-ident", format!("fn f() {{\n    if a {{\n        if b {{\n            {}();\n        }}\n    }}\n}}\n", id(40)), None, None);
    t("long-string", format!("fn f() {{\n    let a = \"{}\";\n}}\n", "s".repeat(50)), None, None);
    t("string-trailing", "fn f() {\n    let a = \"first   \nsecond\t\nthird\";\n}\n".to_string(), None, None);
    t("raw-string-trailing", format!("fn f() {{\n    let a = r#\"first   \n{}  \nend\"#;\n}}\n", "r".repeat(45)), None, None);
    t("string-tabs", "fn f() {\n    let a = \"\ttab\there\tand\tthere\tand\tmore\ttabs\tto\tcount\";\n}\n".to_string(), None, None);
    t("long-line-comment", format!("fn f() {{\n    // {}\n    a();\n}}\n", "c".repeat(50)), None, None);
    t("trailing-comment", format!("fn f() {{\n    a(); // {}\n}}\n", "c".repeat(45)), None, None);
    t("block-comment-trailing", format!("fn f() {{\n    /* first   \n       {}  \n       end */\n    a();\n}}\n", "b".repeat(45)), None, None);
    t("block-comment-one-line", format!("fn f() {{\n    /* {} */\n    a();\n}}\n", "b".repeat(50)), None, None);
    t("comment-then-code", format!("fn f() {{\n    /* c */ {}();\n}}\n", id(50)), None, None);
    {
        let body = format!("foo! {{\n        soup => => here   \n        {} ;;  \n    }}", id(45));
        t("macro-soup", format!("fn f() {{\n    {body}\n}}\n"), None, Some(body));
    }
    {
        let body = format!("fn skipped ( )  {{\n    let   y  = {};   \n      z ( ) ;\t\n}}", id(45));
        t("skipped-fn", format!("#[rustfmt::skip]\n{body}\n\nfn g() {{\n    let b = {};\n}}\n", id(50)), Some(body), None);
    }
    {
        let body = format!("let   y  = [{},   \n            2];", id(45));
        t(
            "skipped-stmt",
            format!("fn f() {{\n    #[rustfmt::skip]\n    {body}\n    let c = {};\n}}\n", id(50)),
            Some(body),
            None,
        );
    }
    {
        let body = format!("struct  S {{ a : u32 ,   \n  {} : u8 }}", id(45));
        t(
            "skipped-cfg-attr",
            format!("#[cfg_attr(rustfmt, rustfmt::skip)]\n{body}\n"),
            Some(body),
            None,
        );
    }
    t("crlf-long", format!("fn f() {{\r\n    let a = {};\r\n}}\r\n", id(50)), None, None);
    t("unicode-ident", format!("fn f() {{\n    let a = {}é;\n}}\n", id(49)), None, None);
    v
}

fn prefixes() -> Vec<(&'static str, &'static str)> {
    vec![
        ("none", ""),
        ("same", "fn p() {}\n\n"),
        // 7 source lines -> 1 output line
        ("shrinks", "fn\np\n(\n)\n{\n}\n\n\n"),
        // 1 source line -> several output lines
        ("grows", "fn p() { let a = 1; let b = 2; let c = 3; let d = 4; }\n\n"),
        ("shrinks-a-lot", "struct\nP\n{\na\n:\nu8\n,\nb\n:\nu8\n,\n}\n\n"),
        // 1 source line -> 5 output lines, the last statement is an unbreakable long line
        ("grows-long-tail", "fn p() { let a = 1; let b = 2; let c = xxxxxxxxxxxxxxxxxxxxxxxxxxxxxxxxxxxxxxxxxxxxxxxxxxxxxxxxxxxx; }\n\n"),
        // history inside one report: diagnostics of other kinds (unknown / deprecated attribute, lost comment)
        // recorded before the line-level ones; the summary flags must still follow the later entries
        ("bad-attr", "#[rustfmt::unknown_xyz]\nfn p() {}\n\n"),
        ("deprecated-attr", "#[rustfmt_skip]\nfn p() {}\n\n"),
        ("lost-comment", "fn p() {\n    let   z: /* d */ u8 = 1;\n}\n\n"),
        ("bad-attr+lost-comment", "#[rustfmt::unknown_xyz]\nfn p() {\n    let   z: /* d */ u8 = 1;\n}\n\n"),
        ("deprecated-attr+lost-comment", "#[rustfmt_skip]\nfn q() {}\n\nfn p() {\n    let   z: /* d */ u8 = 1;\n}\n\n"),
    ]
}

fn width_of(line: &str, ts: usize) -> usize {
    line.chars().map(|c| if c == '\t' { ts } else { 1 }).sum()
}

/// Expected diagnostics of an emitted text: per line (1-based) -> (trailing, overflow)
fn expectations(out: &str, cfg: &Cfg, max_width: usize, skipped_body: Option<&str>, soup: Option<&str>) -> Option<Vec<(Exp, Exp)>> {
    let ts: usize = cfg.get("tab_spaces").and_then(|v| v.parse().ok()).unwrap_or(4);
    let eou = cfg.get("error_on_unformatted") == Some("true");
    let eolo = cfg.get("error_on_line_overflow") == Some("true");
    let unix = out.replace("\r\n", "\n");
    if !lex::lex_clean(&unix) {
        return None;
    }
    let toks = lex::lex(&unix);
    // byte range of skipped body / soup in the output
    let find_range = |needle: Option<&str>| -> Option<(usize, usize)> {
        let n = needle?;
        let n = n.replace("\r\n", "\n");
        let p = unix.find(n.trim())?;
        Some((p, p + n.trim().len()))
    };
    let skipped = find_range(skipped_body);
    if skipped_body.is_some() && skipped.is_none() {
        return None; // skipped node not emitted verbatim: C04's business
    }
    let soup_r = find_range(soup);
    let mut res = vec![];
    let mut off = 0usize;
    for line in unix.split('\n') {
        let start = off;
        let end = off + line.len();
        off = end + 1;
        let trailing = line.chars().last().map_or(false, |c| c.is_whitespace());
        let w_full = width_of(line, ts);
        let trimmed = line.trim_end();
        let w_trim = width_of(trimmed, ts);
        // classification of the line
        let last_char_off = if line.is_empty() { start } else { end - line.chars().last().unwrap().len_utf8() };
        let mut ends_in_comment = false;
        let mut ends_with_block_close = false;
        let mut has_string = false;
        let mut has_char_lit = false;
        for t in &toks {
            if t.end <= start || t.start >= end.max(start + 1) {
                if !(t.start <= start && t.end >= end && line.is_empty()) {
                    continue;
                }
            }
            match t.class {
                Class::Comment | Class::DocComment => {
                    if t.start <= last_char_off && last_char_off < t.end {
                        // line comment: the terminator is still "inside"; block comment
                        // closed on this line: ambiguous
                        let text = t.text(&unix);
                        if text.starts_with("/*") && t.end <= end {
                            // comment closes on this line (possibly followed by blanks)
                            ends_with_block_close = true;
                        } else {
                            ends_in_comment = true;
                        }
                    } else if t.end <= end && unix[t.end..end].trim().is_empty() && t.text(&unix).starts_with("/*") {
                        ends_with_block_close = true;
                    } else if t.end <= end && unix[t.end..end].trim().is_empty() {
                        ends_in_comment = true;
                    }
                }
                _ if t.is_str_lit() => has_string = true,
                Class::Word => {
                    if t.text(&unix).starts_with('\'') || t.text(&unix).starts_with("b'") {
                        has_char_lit = true;
                    }
                }
                _ => {}
            }
        }
        let in_skipped = skipped.map_or(false, |(lo, hi)| start < hi && end > lo);
        // the line on which the skipped node starts may also carry the attribute: only
        // lines fully inside count as skipped for sure
        let fully_skipped = skipped.map_or(false, |(lo, hi)| {
            let line_lo = unix[..lo].rfind('\n').map_or(0, |p| p + 1);
            start >= line_lo && end <= hi + 1
        });
        let in_soup = soup_r.map_or(false, |(lo, hi)| start < hi && end > lo)
            // the line carrying the skip attribute itself: the property does not say whether it
            // belongs to the skipped code
            || line.contains("rustfmt::skip")
            || line.contains("rustfmt_skip");
        let judge = |req_if_allowed: bool, perm_if_allowed: bool, flag_on: bool| -> Exp {
            if !flag_on {
                return Exp::Forbidden;
            }
            if !perm_if_allowed {
                return Exp::Forbidden;
            }
            if in_soup || (in_skipped && !fully_skipped) || has_char_lit && false {
                return Exp::Either;
            }
            if fully_skipped {
                return Exp::Forbidden;
            }
            // exemptions when error_on_unformatted is off
            if !eou {
                if ends_in_comment || has_string {
                    return Exp::Forbidden;
                }
                if ends_with_block_close {
                    return Exp::Either;
                }
            }
            if req_if_allowed {
                Exp::Required
            } else {
                Exp::Either
            }
        };
        let tw = judge(trailing, trailing, true);
        let lo = judge(w_trim > max_width, w_full > max_width, eolo);
        res.push((tw, lo));
    }
    Some(res)
}

impl Prop for C07 {
    fn id(&self) -> &'static str {
        "C07"
    }
    fn rule(&self) -> String {
        "18 diagnostic-forcing targets (long unbreakable identifiers / paths at several depths, long and multi-line \
         strings with trailing blanks and tabs, raw strings, line / trailing / block comments with trailing blanks, \
         comment-then-code, verbatim macro token soup, #[rustfmt::skip] on fn / statement / cfg_attr struct with \
         over-long lines and trailing blanks, CRLF, non-ASCII) x 6 preceding items (none, same, shrinks 7->1 lines, \
         grows 1->6, shrinks 12->4, grows with an over-long last line) x tab_spaces 1..8 x hard_tabs x the four (error_on_line_overflow, \
         error_on_unformatted) combinations x every width. Non-trivial = the expected set of diagnostics is non-empty or \
         an exemption applied to a line; distinct = distinct (input, config, width-plateau)."
            .into()
    }
    fn assumptions(&self) -> Vec<String> {
        vec![
            "hook H1 exposes the (file, line, kind) entries of the FormatReport".into(),
            "column = number of chars, a tab counting tab_spaces (alphabet is ASCII plus width-1 letters)".into(),
            "lenient (either verdict accepted) on: lines of verbatim macro token soup; the line where a skipped node starts when it shares it with other text; a line whose block comment closes on that line when error_on_unformatted is off; LineOverflow on a line that exceeds max_width only through its trailing blanks".into(),
        ]
    }
    fn units(&self, tier: Tier) -> Vec<Unit> {
        let thorough = tier == Tier::Thorough;
        let mut units = vec![];
        let tss: Vec<usize> = (1..=8).collect();
        let _ = thorough;
        for t in targets() {
            for (pn, ptext) in prefixes() {
                for &ts in &tss {
                    for ht in [false, true] {
                        for (eolo, eou) in [(true, true), (true, false), (false, true), (false, false)] {
                            // a skipped node after an item whose line count changes: rustfmt mixes source and
                            // output line numbers there (known finding); explored at the default tab settings
                            // only, so that the one root cause is listed a dozen times, not hundreds
                            if t.skipped_body.is_some() && pn != "none" && pn != "same" && (ht || ts != 4) {
                                continue;
                            }
                            let mut cfg = Cfg::new(2024)
                                .with("error_on_line_overflow", if eolo { "true" } else { "false" })
                                .with("error_on_unformatted", if eou { "true" } else { "false" });
                            if ts != 4 {
                                cfg = cfg.with("tab_spaces", &ts.to_string());
                            }
                            if ht {
                                cfg = cfg.with("hard_tabs", "true");
                            }
                            units.push(Unit {
                                key: format!("{}/{}", t.name, pn),
                                text: format!("{ptext}{}", t.text),
                                cfg,
                                extra: json!({"skipped": t.skipped_body, "soup": t.soup}),
                            });
                        }
                    }
                }
            }
        }
        units
    }
    fn check(&self, u: &Unit, tier: Tier, sink: &mut Sink) {
        let skipped = u.extra["skipped"].as_str();
        let soup = u.extra["soup"].as_str();
        let mut prev: Option<(String, Vec<(usize, String)>)> = None;
        let mut sampled = false;
        for w in widths_for(&u.cfg, tier) {
            let o = fmt::format(&u.text, &u.cfg, w);
            if !o.ok() {
                sink.count("not_ok", 1);
                continue;
            }
            let reported: Vec<(usize, String)> = o
                .entries
                .iter()
                .filter(|e| e.kind == "LineOverflow" || e.kind == "TrailingWhitespace")
                .map(|e| (e.line, e.kind.clone()))
                .collect();
            let Some(exp) = expectations(&o.text, &u.cfg, w, skipped, soup) else {
                sink.count("no_expectation", 1);
                continue;
            };
            let mut nontrivial = false;
            let mut problems: Vec<String> = vec![];
            for (i, (tw, lo)) in exp.iter().enumerate() {
                let line = i + 1;
                for (kind, e) in [("TrailingWhitespace", tw), ("LineOverflow", lo)] {
                    let got = reported.iter().any(|(l, k)| *l == line && k == kind);
                    match e {
                        Exp::Required => {
                            nontrivial = true;
                            if !got {
                                problems.push(format!("missing {kind} on line {line}"));
                            }
                        }
                        Exp::Forbidden => {
                            if got {
                                problems.push(format!("spurious {kind} on line {line}"));
                            }
                        }
                        Exp::Either => nontrivial = true,
                    }
                }
            }
            for (l, k) in &reported {
                if *l == 0 || *l > exp.len() {
                    problems.push(format!("{k} reported on line {l} which does not exist"));
                }
            }
            // a reported trailing blank / overflow must set the flags the exit status is derived from
            // (bin/main.rs: exit 1 iff operational || parsing || ...)
            let any_tw = reported.iter().any(|(_, k)| k == "TrailingWhitespace");
            let any_lo = reported.iter().any(|(_, k)| k == "LineOverflow");
            if (any_tw || any_lo) && !o.flags[0] {
                problems.push("diagnostic reported but the operational-error flag (exit status 1) is not set on line 0".to_string());
            }
            if any_tw && !o.flags[6] {
                problems.push("trailing whitespace reported but the unformatted-code flag is not set on line 0".to_string());
            }
            // entries for other files
            for e in &o.entries {
                if e.file != "<stdin>" && e.file != "stdin" {
                    problems.push(format!("entry for unexpected file {}", e.file));
                }
            }
            if nontrivial {
                sink.distinct.insert(hash64(&format!("{}\u{0}{}\u{0}{}", u.text, u.cfg.label(), o.text)));
            }
            if !sampled && nontrivial {
                sampled = true;
                sink.sample(json!({"unit": u.key, "input": u.text, "config": u.cfg.label(), "width": w,
                    "reported": reported, "output": o.text}));
            }
            if !problems.is_empty() {
                // report the first problem class; the detail lists all
                let what = problems[0]
                    .split(" on line")
                    .next()
                    .unwrap_or("diagnostic mismatch")
                    .to_string();
                let same_as_prev = prev.as_ref().map_or(false, |(t, r)| *t == o.text && *r == reported);
                if !same_as_prev || true {
                    sink.violation(
                        "C07",
                        u,
                        w,
                        &what,
                        format!("{}\nreported: {:?}\n--- output ---\n{}", problems.join("\n"), reported, o.text),
                    );
                }
            }
            prev = Some((o.text, reported));
        }
    }
}
