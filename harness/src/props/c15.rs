//! C15 — output is a function of source and configuration only (in-process half).
//!
//! ALL sequences of length <= 3 (thorough 4) over a 7-input alphabet are run
//! through ONE `Session` per emit mode; after every step the bytes appended to
//! the session's writer (or the files written) and the report are compared with
//! the single-input reference run; at the end the sticky flags must be the OR
//! of the references. Inputs with a local configuration go through
//! `Session::override_config`, exactly as bin/main.rs does.

use std::path::PathBuf;

use rustfmt_nightly::verif_hooks::{self, ReportEntry};
use rustfmt_nightly::{Config, EmitMode, Input, Session};
use serde_json::json;

use crate::explore::{hash64, Prop, Sink, Tier, Unit};
use crate::fmt::{self, Cfg};

pub struct C15;

#[derive(Clone, Debug)]
struct In {
    name: &'static str,
    /// files to create: (relative path, content); the first is the root
    files: Vec<(&'static str, String)>,
    /// stdin input instead of a file
    stdin: bool,
    /// local configuration (swapped in with override_config), None = session config
    local: Option<Vec<(&'static str, &'static str)>>,
}

fn alphabet() -> Vec<In> {
    vec![
        In { name: "formatted", files: vec![("formatted.rs", "fn a() {}\n".into())], stdin: false, local: None },
        In { name: "unformatted", files: vec![("unformatted.rs", "fn  b ( ) { let  x=1 ; }\n".into())], stdin: false, local: None },
        In { name: "parse-error", files: vec![("broken.rs", "fn c( { let x = ; }\n".into())], stdin: false, local: None },
        In {
            name: "local-config",
            files: vec![("local/local.rs", "fn  d ( ) { if  a { b ( ) ; } }\n".into())],
            stdin: false,
            local: Some(vec![("tab_spaces", "2"), ("brace_style", "AlwaysNextLine")]),
        },
        In {
            name: "cfg-if-crate",
            files: vec![
                ("cfgif/lib.rs", "cfg_if ! { if #[cfg(x)] { mod  one ; } else { mod  two ; } }\nfn  e ( ) { }\n".into()),
                ("cfgif/one.rs", "fn  one ( ) { }\n".into()),
                ("cfgif/two.rs", "fn  two ( ) { }\n".into()),
            ],
            stdin: false,
            local: None,
        },
        In {
            name: "diagnostics",
            files: vec![("diag.rs", format!("fn  g ( ) {{ let a = {}; }}\n", "x".repeat(120)))],
            stdin: false,
            local: Some(vec![("error_on_line_overflow", "true"), ("error_on_unformatted", "true")]),
        },
        In { name: "stdin", files: vec![("", "fn  h ( ) { let  y=2 ; }\n".into())], stdin: true, local: None },
    ]
}

fn modes() -> Vec<(&'static str, EmitMode)> {
    vec![
        ("stdout", EmitMode::Stdout),
        ("files", EmitMode::Files),
        ("json", EmitMode::Json),
        ("checkstyle", EmitMode::Checkstyle),
        ("modified-lines", EmitMode::ModifiedLines),
    ]
}

fn session_config(mode: EmitMode, local: Option<&Vec<(&'static str, &'static str)>>) -> Config {
    let mut cfg = Cfg::new(2015);
    if let Some(kv) = local {
        for (k, v) in kv {
            cfg = cfg.with(k, v);
        }
    }
    let mut c = fmt::build_config(&cfg, None);
    c.set().emit_mode(mode);
    c
}

struct Step {
    appended: Vec<u8>,
    entries: Vec<ReportEntry>,
    flags: Option<[bool; 7]>,
    result: String,
    files_after: Vec<(String, String)>,
}

/// Run `seq` (indices into the alphabet) in one session; returns the steps,
/// the total output (incl. header/footer) and the sticky flags.
fn run_session(root: &PathBuf, seq: &[usize], mode: EmitMode, tag: &str) -> (Vec<Step>, Vec<u8>, [bool; 6]) {
    let alpha = alphabet();
    // fresh copies of every file for this session
    let dir = root.join(tag);
    let _ = std::fs::remove_dir_all(&dir);
    for &i in seq {
        for (rel, content) in &alpha[i].files {
            if rel.is_empty() {
                continue;
            }
            let p = dir.join(rel);
            std::fs::create_dir_all(p.parent().unwrap()).unwrap();
            std::fs::write(&p, content).unwrap();
        }
    }
    let mut out: Vec<u8> = Vec::new();
    let mut steps = vec![];
    let sticky;
    {
        let mut session = Session::new(session_config(mode, None), Some(&mut out));
        for &i in seq {
            let inp = &alpha[i];
            let before = session.out.as_ref().map_or(0, |o| o.len());
            let input = if inp.stdin {
                Input::Text(inp.files[0].1.clone())
            } else {
                Input::File(dir.join(inp.files[0].0))
            };
            // Files mode cannot emit standard input (the binary refuses the combination too)
            if inp.stdin && mode == EmitMode::Files {
                steps.push(Step { appended: vec![], entries: vec![], flags: None, result: "skipped".into(), files_after: vec![] });
                continue;
            }
            let res = std::panic::catch_unwind(std::panic::AssertUnwindSafe(|| match &inp.local {
                Some(kv) => {
                    let local = session_config(mode, Some(kv));
                    session.override_config(local, |s| s.format(input))
                }
                None => session.format(input),
            }));
            let after = session.out.as_ref().map_or(0, |o| o.len());
            let appended = session.out.as_ref().map_or(vec![], |o| o[before..after].to_vec());
            let (entries, flags, result) = match res {
                Ok(Ok(report)) => (
                    verif_hooks::report_entries(&report),
                    Some(verif_hooks::report_flags(&report)),
                    "ok".to_string(),
                ),
                Ok(Err(e)) => (vec![], None, format!("err: {e}")),
                Err(_) => (vec![], None, format!("panic: {}", fmt::last_panic())),
            };
            let mut files_after = vec![];
            for (rel, _) in &inp.files {
                if !rel.is_empty() {
                    files_after.push((rel.to_string(), std::fs::read_to_string(dir.join(rel)).unwrap_or_default()));
                }
            }
            steps.push(Step { appended, entries, flags, result, files_after });
        }
        sticky = [
            session.has_operational_errors(),
            session.has_parsing_errors(),
            session.has_formatting_errors(),
            session.has_check_errors(),
            session.has_diff(),
            session.has_unformatted_code_errors(),
        ];
    }
    let _ = std::fs::remove_dir_all(&dir);
    (steps, out, sticky)
}

/// File names in reports are absolute scratch paths: make them comparable.
fn scrub(b: &[u8], tag: &str) -> String {
    String::from_utf8_lossy(b).replace(&format!("/{tag}/"), "/T/")
}

fn scrub_entries(e: &[ReportEntry], tag: &str) -> Vec<String> {
    e.iter().map(|x| format!("{}:{}:{}", x.file.replace(&format!("/{tag}/"), "/T/"), x.line, x.kind)).collect()
}

impl Prop for C15 {
    fn id(&self) -> &'static str {
        "C15"
    }
    fn level(&self) -> &'static str {
        "model_checking"
    }
    fn rule(&self) -> String {
        "ALL input sequences of length <= 3 (thorough 4) over a 7-input alphabet {formatted file, unformatted file, file with a \
         parse error, file with a local configuration (override_config), crate with cfg_if! children, file producing \
         diagnostics (error flags on), standard-input text} in ONE Session, for each emit mode {stdout, files, json, \
         checkstyle, modified-lines}; state = (sticky error flags, session config, emitter accumulator), transitions = \
         Session::format calls; every step is compared with the single-input reference session. Non-trivial = the history has \
         >= 2 inputs of different kinds; distinct = distinct (sequence, mode)."
            .into()
    }
    fn assumptions(&self) -> Vec<String> {
        vec![
            "EmitMode::Diff prints to the process stdout and is covered by the CLI half (drivers/c15_cli.py)".into(),
            "standard input is never combined with files mode (the binary refuses it too)".into(),
        ]
    }
    fn units(&self, tier: Tier) -> Vec<Unit> {
        let n = alphabet().len();
        let maxlen = if tier == Tier::Thorough { 4 } else { 3 };
        let mut seqs: Vec<Vec<usize>> = vec![];
        let mut frontier: Vec<Vec<usize>> = vec![vec![]];
        for _ in 0..maxlen {
            let mut next = vec![];
            for s in &frontier {
                for i in 0..n {
                    let mut t = s.clone();
                    t.push(i);
                    next.push(t);
                }
            }
            seqs.extend(next.iter().cloned());
            frontier = next;
        }
        let mut units = vec![];
        for (mname, _) in modes() {
            for chunk in seqs.chunks(16) {
                units.push(Unit {
                    key: format!("{mname}/{:?}", chunk[0]),
                    text: String::new(),
                    cfg: Cfg::new(2015),
                    extra: json!({"mode": mname, "seqs": chunk}),
                });
            }
        }
        units
    }
    fn check(&self, u: &Unit, _tier: Tier, sink: &mut Sink) {
        let alpha = alphabet();
        let mname = u.extra["mode"].as_str().unwrap();
        let mode = modes().into_iter().find(|(n, _)| *n == mname).unwrap().1;
        let base = if std::path::Path::new("/dev/shm").is_dir() { "/dev/shm" } else { "/tmp" };
        let root = PathBuf::from(format!("{base}/verif-c15-{}", std::process::id()));
        let _ = std::fs::create_dir_all(&root);
        // reference: every input alone
        let mut refs = vec![];
        for i in 0..alpha.len() {
            refs.push(run_session(&root, &[i], mode, "ref"));
        }
        for s in u.extra["seqs"].as_array().unwrap() {
            let seq: Vec<usize> = s.as_array().unwrap().iter().map(|x| x.as_u64().unwrap() as usize).collect();
            let names: Vec<&str> = seq.iter().map(|&i| alpha[i].name).collect();
            let (steps, total, sticky) = run_session(&root, &seq, mode, "seq");
            sink.count("transitions", seq.len() as u64);
            sink.count("traces", 1);
            let kinds: std::collections::BTreeSet<usize> = seq.iter().copied().collect();
            if kinds.len() >= 2 {
                sink.distinct.insert(hash64(&format!("{mname}{seq:?}")));
            }
            let mut problems: Vec<String> = vec![];
            let mut want_sticky = [false; 6];
            let mut want_total_parts: Vec<String> = vec![];
            for (k, (&i, st)) in seq.iter().zip(steps.iter()).enumerate() {
                let (rsteps, rtotal, rsticky) = &refs[i];
                let r = &rsteps[0];
                for f in 0..6 {
                    want_sticky[f] |= rsticky[f];
                }
                if st.result != r.result {
                    problems.push(format!("step {k} ({}): result {:?} but alone {:?}", alpha[i].name, st.result, r.result));
                }
                if mode != EmitMode::Json && scrub(&st.appended, "seq") != scrub(&r.appended, "ref") {
                    problems.push(format!(
                        "step {k} ({}): bytes appended to the writer differ from the single-input run\n--- in sequence ---\n{}\n--- alone ---\n{}",
                        alpha[i].name,
                        scrub(&st.appended, "seq"),
                        scrub(&r.appended, "ref")
                    ));
                }
                if scrub_entries(&st.entries, "seq") != scrub_entries(&r.entries, "ref") || st.flags != r.flags {
                    problems.push(format!(
                        "step {k} ({}): report differs from the single-input run: {:?} {:?} vs {:?} {:?}",
                        alpha[i].name,
                        scrub_entries(&st.entries, "seq"),
                        st.flags,
                        scrub_entries(&r.entries, "ref"),
                        r.flags
                    ));
                }
                if st.files_after != r.files_after {
                    problems.push(format!("step {k} ({}): files on disk differ from the single-input run", alpha[i].name));
                }
                want_total_parts.push(scrub(rtotal, "ref"));
            }
            if sticky != want_sticky {
                problems.push(format!("sticky flags {sticky:?} are not the OR of the single-input flags {want_sticky:?}"));
            }
            // whole documents: json = concatenation of the per-input arrays; checkstyle = one
            // header, the per-input <file> elements in order, one footer
            match mode {
                EmitMode::Json => {
                    let mut want: Vec<serde_json::Value> = vec![];
                    for p in &want_total_parts {
                        if let Ok(serde_json::Value::Array(a)) = serde_json::from_str::<serde_json::Value>(p) {
                            want.extend(a);
                        }
                    }
                    match serde_json::from_str::<serde_json::Value>(&scrub(&total, "seq")) {
                        Ok(serde_json::Value::Array(a)) if a == want => {}
                        other => problems.push(format!("json document {other:?} is not the union of the single-input documents {want:?}")),
                    }
                }
                EmitMode::Checkstyle => {
                    let strip = |s: &str| {
                        s.trim_start_matches("<?xml version=\"1.0\" encoding=\"utf-8\"?>\n<checkstyle version=\"4.3\">")
                            .trim_end_matches("</checkstyle>\n")
                            .to_string()
                    };
                    let want: String = want_total_parts.iter().map(|p| strip(p)).collect();
                    let t = scrub(&total, "seq");
                    if strip(&t) != want || !t.starts_with("<?xml") || !t.ends_with("</checkstyle>\n") {
                        problems.push(format!("checkstyle document is not header + per-input elements + footer:\n{t}"));
                    }
                }
                _ => {}
            }
            if !problems.is_empty() {
                let mut vu = u.clone();
                vu.text = format!("mode={mname} sequence={names:?}");
                vu.key = format!("{mname}/{names:?}");
                sink.violation("C15", &vu, 0, "session history changes an input's result", problems.join("\n"));
            }
            sink.sample(json!({"mode": mname, "history": names,
                "results": steps.iter().map(|s| s.result.clone()).collect::<Vec<_>>(),
                "appended_bytes": steps.iter().map(|s| s.appended.len()).collect::<Vec<_>>(),
                "sticky": sticky}));
        }
        sink.count("states", alpha.len() as u64);
        let _ = std::fs::remove_dir_all(&root);
    }
}
