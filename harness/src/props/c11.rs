//! C11 — reordering is a deterministic, order-insensitive permutation.
//!
//! Layer A (hook H2): `version_sort` on ALL pairs of identifiers of length <= 4
//! over a 9-symbol alphabet (reflexive, antisymmetric) and ALL triples of
//! length <= 3 (transitive, also through Equal); plus digit runs > usize.
//! Layer B (no hook): for use / mod / extern-crate groups and import-list
//! members: every permutation of every subset of size <= 3 (quick) / 4
//! (thorough) formats to the same text (members ranked equal -- alias-only
//! difference -- keep input order), the output is a permutation of the input
//! elements with attributes and comments attached, barriers are respected.

use std::cmp::Ordering;
use std::collections::BTreeMap;

use rustfmt_nightly::verif_hooks::version_sort;
use serde_json::json;

use crate::explore::{hash64, Prop, Sink, Tier, Unit};
use crate::fmt::{self, Cfg};
use crate::usetree::{self, ItemInfo};

pub struct C11;

const SYMS: [char; 9] = ['a', 'b', 'B', 'Z', '_', '0', '1', '9', 'z'];

fn idents(max_len: usize) -> Vec<String> {
    let mut out = vec![];
    let mut frontier = vec![String::new()];
    for _ in 0..max_len {
        let mut next = vec![];
        for s in &frontier {
            for c in SYMS {
                let mut t = s.clone();
                t.push(c);
                next.push(t);
            }
        }
        out.extend(next.iter().cloned());
        frontier = next;
    }
    // valid identifiers only: do not start with a digit, not a lone `_`
    out.retain(|s| !s.starts_with(|c: char| c.is_ascii_digit()) && s != "_");
    out
}

fn le(o: Ordering) -> bool {
    o != Ordering::Greater
}

// ------------------------------------------------------------ layer B data

pub static USE_ELEMS: &[&str] = &[
    "use a;",
    "use b;",
    "use B;",
    "use _a;",
    "use a_b;",
    "use a0;",
    "use a::b;",
    "use a::B;",
    "use a::b as c;",
    "use a::b as d;",
    "use a::*;",
    "use a::{b, c};",
    "use a::{self};",
    "use a::{self, b};",
    "use self::a;",
    "use super::a;",
    "use crate::a;",
    "use ::a;",
    "use std::a;",
    "use core::b;",
    "use a::_0;",
    "use a::a1;",
    "use a::a01;",
    "use a::a10;",
    "use a::a2;",
    "use a::A;",
    "use a::r#fn;",
    "use a::b::c;",
    "use a::Z;",
    "pub use a::y;",
    "#[cfg(x)]\nuse a::k;",
    "use a::{x1 as x2, x3};",
];

pub static MOD_ELEMS: &[&str] = &[
    "mod a;",
    "mod b;",
    "mod B;",
    "mod Z;",
    "mod _a;",
    "mod a1;",
    "mod a01;",
    "mod a10;",
    "mod a2;",
    "mod a_b;",
    "pub mod c;",
    "#[cfg(x)]\nmod d;",
    "#[path = \"p.rs\"]\nmod f;",
];

pub static CRATE_ELEMS: &[&str] = &[
    "extern crate a;",
    "extern crate b;",
    "extern crate B;",
    "extern crate a1;",
    "extern crate a01;",
    "extern crate a as c;",
    "extern crate a as d;",
    "#[cfg(x)]\nextern crate e;",
];

pub static LIST_MEMBERS: &[&str] = &[
    "a", "b", "B", "Z", "_a", "a1", "a01", "a10", "a2", "self", "*", "b as c", "c::d", "c::{e, f}", "r#fn",
    "a_b", "a0",
];

fn key_of(i: &ItemInfo) -> String {
    format!("{}|{}|{:?}|{:?}|{}", i.kind, i.vis, i.attrs, i.leaves, i.name)
}

fn keys(src: &str, edition: u16) -> Option<Vec<String>> {
    usetree::crate_items(src, edition).ok().map(|v| v.iter().map(key_of).collect())
}

fn permutations(n: usize) -> Vec<Vec<usize>> {
    fn rec(cur: &mut Vec<usize>, used: &mut Vec<bool>, n: usize, out: &mut Vec<Vec<usize>>) {
        if cur.len() == n {
            out.push(cur.clone());
            return;
        }
        for i in 0..n {
            if !used[i] {
                used[i] = true;
                cur.push(i);
                rec(cur, used, n, out);
                cur.pop();
                used[i] = false;
            }
        }
    }
    let mut out = vec![];
    rec(&mut vec![], &mut vec![false; n], n, &mut out);
    out
}

fn subsets(n: usize, k: usize) -> Vec<Vec<usize>> {
    fn rec(start: usize, n: usize, k: usize, cur: &mut Vec<usize>, out: &mut Vec<Vec<usize>>) {
        if cur.len() == k {
            out.push(cur.clone());
            return;
        }
        for i in start..n {
            cur.push(i);
            rec(i + 1, n, k, cur, out);
            cur.pop();
        }
    }
    let mut out = vec![];
    rec(0, n, k, &mut vec![], &mut out);
    out
}

/// Two declarations differ only in their alias (same kind, vis, attrs, path).
fn alias_only(a: &str, b: &str, edition: u16) -> bool {
    let (Ok(ia), Ok(ib)) = (usetree::crate_items(a, edition), usetree::crate_items(b, edition)) else {
        return false;
    };
    if ia.len() != 1 || ib.len() != 1 {
        return false;
    }
    let (x, y) = (&ia[0], &ib[0]);
    if x.kind != y.kind || x.vis != y.vis || x.attrs != y.attrs {
        return false;
    }
    if x.kind == "use" {
        x.leaves.len() == 1
            && y.leaves.len() == 1
            && x.leaves[0].path == y.leaves[0].path
            && x.leaves[0].glob == y.leaves[0].glob
            && x.leaves[0].alias != y.leaves[0].alias
    } else if x.kind == "extern_crate" {
        let base = |n: &str| n.split(" as ").next().unwrap().to_string();
        base(&x.name) == base(&y.name) && x.name != y.name
    } else {
        false
    }
}

struct GroupCheck<'a> {
    u: &'a Unit,
    cfg: &'a Cfg,
    width: usize,
    group: std::cell::RefCell<String>,
    reported: std::cell::RefCell<std::collections::BTreeSet<(String, String)>>,
}

impl<'a> GroupCheck<'a> {
    fn fmt(&self, src: &str, sink: &mut Sink) -> Option<String> {
        let o = fmt::format(src, self.cfg, self.width);
        sink.count("evaluations", 1);
        if o.ok() {
            Some(o.text)
        } else {
            None
        }
    }

    /// Check one group of declarations (as full texts).
    fn check_group(&self, elems: &[&str], sink: &mut Sink) {
        self.check_group_filtered(elems, sink, &|_| true)
    }

    /// Like `check_group`, over the permutations accepted by `keep`.
    fn check_group_filtered(&self, elems: &[&str], sink: &mut Sink, keep: &dyn Fn(&[usize]) -> bool) {
        let n = elems.len();
        *self.group.borrow_mut() = elems.iter().map(|e| format!("{e}\n")).collect();
        let edition = self.cfg.edition;
        let reorder = self.cfg.get("reorder_imports") != Some("false") && self.cfg.get("reorder_modules") != Some("false");
        // rank-equal pairs (alias-only difference) must keep input order
        let mut eq_pairs = vec![];
        for i in 0..n {
            for j in i + 1..n {
                if alias_only(elems[i], elems[j], edition) {
                    eq_pairs.push((i, j));
                }
            }
        }
        let mut classes: BTreeMap<Vec<bool>, (String, Vec<usize>)> = BTreeMap::new();
        let input_keys_sorted = {
            let mut k: Vec<String> = elems.iter().filter_map(|e| keys(&format!("{e}\n"), edition)).flatten().collect();
            k.sort();
            k
        };
        for perm in permutations(n) {
            if !keep(&perm) {
                continue;
            }
            let src: String = perm.iter().map(|&i| format!("{}\n", elems[i])).collect();
            let Some(out) = self.fmt(&src, sink) else { continue };
            if out != src {
                sink.distinct.insert(hash64(&format!("{src}\u{0}{}", self.cfg.label())));
            }
            // permutation: same multiset of elements (with attributes)
            match keys(&out, edition) {
                Some(mut k) => {
                    k.sort();
                    if k != input_keys_sorted {
                        self.violation(sink, &src, "output is not a permutation of the input elements", format!("{out}"));
                    }
                }
                None => self.violation(sink, &src, "output does not parse", out.clone()),
            }
            // attached comments survive, attached to their element
            for &i in &perm {
                if let Some(pos) = elems[i].find("// ") {
                    let c = elems[i][pos..].lines().next().unwrap();
                    let decl_line = elems[i].lines().find(|l| !l.trim_start().starts_with("//")).unwrap_or("");
                    let decl_code = decl_line.split("//").next().unwrap().trim();
                    let ok = if elems[i].starts_with("//") {
                        // leading comment: the line after the comment is the declaration
                        let lines: Vec<&str> = out.lines().collect();
                        lines.iter().position(|l| l.trim() == c).map_or(false, |p| {
                            lines.get(p + 1).map_or(false, |l| l.trim() == decl_code)
                        })
                    } else {
                        out.lines().any(|l| l.trim_start().starts_with(decl_code) && l.trim_end().ends_with(c))
                    };
                    if !ok {
                        self.violation(sink, &src, "attached comment lost or detached", out.clone());
                    }
                }
            }
            if !reorder {
                continue;
            }
            let class: Vec<bool> = eq_pairs
                .iter()
                .map(|&(i, j)| perm.iter().position(|&x| x == i) < perm.iter().position(|&x| x == j))
                .collect();
            match classes.get(&class) {
                None => {
                    classes.insert(class, (out, perm.clone()));
                }
                Some((first_out, first_perm)) => {
                    if *first_out != out {
                        self.violation(
                            sink,
                            &src,
                            "order depends on input order",
                            format!(
                                "permutation {:?} gives\n{}\npermutation {:?} gives\n{}",
                                first_perm, first_out, perm, out
                            ),
                        );
                    }
                }
            }
        }
    }

    fn violation(&self, sink: &mut Sink, src: &str, what: &str, detail: String) {
        let mut vu = self.u.clone();
        // one report per (group, failure class): the group is identified by its
        // elements in enumeration order, the failing permutation goes into the detail
        let group = self.group.borrow().clone();
        // only the first failure class of a group is reported (later ones are consequences)
        if self.reported.borrow().iter().any(|(g, _)| *g == group) {
            return;
        }
        self.reported.borrow_mut().insert((group.clone(), what.to_string()));
        let detail = format!("failing permutation:\n{src}\n{detail}");
        let src = group.as_str();
        vu.text = src.to_string();
        vu.cfg = self.cfg.clone();
        sink.violation("C11", &vu, self.width, what, detail);
    }
}

fn cfgs(tier: Tier, kind: &str) -> Vec<Cfg> {
    let ses: &[u16] = if tier == Tier::Thorough { &[2015, 2018, 2021, 2024, 2027] } else { &[2015, 2024] };
    let mut out = vec![];
    for &se in ses {
        out.push(Cfg::new(se));
        if kind == "use" || kind == "list" {
            out.push(Cfg::new(se).with("group_imports", "StdExternalCrate"));
            out.push(Cfg::new(se).with("group_imports", "One"));
            if tier == Tier::Thorough {
                out.push(Cfg::new(se).with("reorder_imports", "false"));
                out.push(Cfg::new(se).with("imports_layout", "Vertical"));
            }
        } else if tier == Tier::Thorough {
            // `extern crate` declarations are governed by reorder_imports, `mod` declarations by reorder_modules
            out.push(Cfg::new(se).with(if kind == "crate" { "reorder_imports" } else { "reorder_modules" }, "false"));
        }
    }
    out
}

impl Prop for C11 {
    fn id(&self) -> &'static str {
        "C11"
    }
    fn rule(&self) -> String {
        "Layer A: version_sort on ALL ordered pairs of valid identifiers of length <= 4 over {a,b,B,Z,_,0,1,9,z} (reflexivity, \
         antisymmetry) and ALL triples of length <= 3 (transitivity incl. through Equal), plus digit runs beyond usize. \
         Layer B: every subset of size <= 3 (quick) / 4 (thorough) of a 32-declaration `use` universe, 13 `mod`, 8 `extern crate` \
         and 17 import-list members, ALL permutations of each, x style editions x group_imports/reorder settings; barriers \
         (blank line, #[macro_use], skipped item, other item kind) x all ordered pairs on each side. Layer C: groups of \
         21, 22, 33, 48, 64 (thorough: every size 21..=72) declarations / list members (imports in alias-only pairs) under \
         the reversal, the riffle and every stride permutation i -> i*s (+1) mod n with gcd(s,n)=1, compared with the stable \
         sort of the input (the sort implementation changes algorithm above 20 elements). Non-trivial = the output \
         order differs from the input order; distinct = distinct (input text, config)."
            .into()
    }
    fn assumptions(&self) -> Vec<String> {
        vec![
            "hook H2 re-exports the comparator used for style edition 2024".into(),
            "elements are identified in the output by (kind, visibility, attributes, leaf set) from the independent parse".into(),
        ]
    }
    fn units(&self, tier: Tier) -> Vec<Unit> {
        let mut units = vec![];
        // layer A: one unit per first symbol pair for parallelism
        let ids4 = idents(4);
        let chunk = 64;
        for (ci, c) in ids4.chunks(chunk).enumerate() {
            units.push(Unit {
                key: format!("vsort/pairs/{ci}"),
                text: c.join(" "),
                cfg: Cfg::new(2024),
                extra: json!({"layer": "pairs"}),
            });
        }
        let ids3 = idents(3);
        for (ci, c) in ids3.chunks(8).enumerate() {
            units.push(Unit {
                key: format!("vsort/triples/{ci}"),
                text: c.join(" "),
                cfg: Cfg::new(2024),
                extra: json!({"layer": "triples"}),
            });
        }
        units.push(Unit {
            key: "vsort/bignum".into(),
            text: String::new(),
            cfg: Cfg::new(2024),
            extra: json!({"layer": "bignum"}),
        });
        // layer B
        let kmax = if tier == Tier::Thorough { 4 } else { 3 };
        for (kind, elems) in [("use", USE_ELEMS), ("mod", MOD_ELEMS), ("crate", CRATE_ELEMS), ("list", LIST_MEMBERS)] {
            for k in 2..=kmax {
                // size-4 subsets only of the smaller universes / a prefix of the use universe
                let n = if k == 4 && kind == "use" { 16 } else { elems.len() };
                for (si, chunk) in subsets(n, k).chunks(32).enumerate() {
                    for cfg in cfgs(tier, kind) {
                        units.push(Unit {
                            key: format!("{kind}/k{k}/{si}"),
                            text: String::new(),
                            cfg,
                            extra: json!({"layer": "groups", "kind": kind, "subsets": chunk}),
                        });
                    }
                }
            }
        }
        // layer C: groups beyond the small-slice regime of the sort implementation (std switches
        // algorithm above 20 elements): a bounded family of permutations instead of all of them
        let sizes: Vec<usize> = if tier == Tier::Thorough { (21..=72).collect() } else { vec![21, 22, 33, 48, 64] };
        for kind in ["use", "mod", "crate", "list"] {
            for &n in &sizes {
                for cfg in cfgs(tier, kind) {
                    if cfg.get("imports_layout").is_some() {
                        continue;
                    }
                    units.push(Unit {
                        key: format!("big/{kind}/n{n}"),
                        text: String::new(),
                        cfg,
                        extra: json!({"layer": "big", "kind": kind, "n": n}),
                    });
                }
            }
        }
        for kind in ["use", "mod", "crate"] {
            for cfg in cfgs(tier, kind) {
                if cfg.kv.is_empty() {
                    units.push(Unit {
                        key: format!("comments/{kind}"),
                        text: String::new(),
                        cfg: cfg.clone(),
                        extra: json!({"layer": "comments", "kind": kind}),
                    });
                }
                units.push(Unit {
                    key: format!("barrier/{kind}"),
                    text: String::new(),
                    cfg,
                    extra: json!({"layer": "barrier", "kind": kind}),
                });
            }
        }
        units
    }
    fn check(&self, u: &Unit, tier: Tier, sink: &mut Sink) {
        match u.extra["layer"].as_str().unwrap() {
            "pairs" => {
                let all = idents(4);
                for a in u.text.split(' ') {
                    if version_sort(a, a) != Ordering::Equal {
                        sink.violation("C11", u, 0, "version_sort not reflexive", a.to_string());
                    }
                    for b in &all {
                        sink.count("evaluations", 1);
                        let ab = version_sort(a, b);
                        let ba = version_sort(b, a);
                        if ab != ba.reverse() {
                            let mut vu = u.clone();
                            vu.text = format!("{a} {b}");
                            sink.violation("C11", &vu, 0, "version_sort not antisymmetric", format!("cmp({a},{b})={ab:?} cmp({b},{a})={ba:?}"));
                        }
                        if ab == Ordering::Equal && a != b.as_str() {
                            // distinct identifiers ranked equal: allowed by a preorder, counted
                            sink.count("distinct_idents_ranked_equal", 1);
                        }
                        if ab != Ordering::Equal {
                            sink.count("pairs_strictly_ordered", 1);
                            sink.distinct.insert(hash64(a));
                        }
                    }
                }
                sink.sample(json!({"layer": "version_sort pairs", "first": u.text.split(' ').next(), "against": "all identifiers of length <= 4"}));
            }
            "triples" => {
                let all = idents(3);
                for a in u.text.split(' ') {
                    for b in &all {
                        let ab = version_sort(a, b);
                        if !le(ab) {
                            continue;
                        }
                        for c in &all {
                            sink.count("evaluations", 1);
                            let bc = version_sort(b, c);
                            if !le(bc) {
                                continue;
                            }
                            let ac = version_sort(a, c);
                            let strict = ab == Ordering::Less || bc == Ordering::Less;
                            let bad = if strict { ac != Ordering::Less } else { ac != Ordering::Equal };
                            if bad {
                                let mut vu = u.clone();
                                vu.text = format!("{a} {b} {c}");
                                sink.violation(
                                    "C11",
                                    &vu,
                                    0,
                                    "version_sort not transitive",
                                    format!("cmp({a},{b})={ab:?} cmp({b},{c})={bc:?} cmp({a},{c})={ac:?}"),
                                );
                            }
                        }
                    }
                }
            }
            "bignum" => {
                // digit runs beyond usize: chunk parsing fails; the relation must stay a preorder
                let big = ["a18446744073709551616", "a18446744073709551617", "a99999999999999999999b", "a1", "a18446744073709551615", "a018446744073709551616", "a", "a_", "b"];
                for a in big {
                    for b in big {
                        let ab = version_sort(a, b);
                        if ab != version_sort(b, a).reverse() {
                            let mut vu = u.clone();
                            vu.text = format!("{a} {b}");
                            sink.violation("C11", &vu, 0, "version_sort not antisymmetric", format!("{ab:?}"));
                        }
                        for c in big {
                            sink.count("evaluations", 1);
                            let bc = version_sort(b, c);
                            let ac = version_sort(a, c);
                            if le(ab) && le(bc) {
                                let strict = ab == Ordering::Less || bc == Ordering::Less;
                                if (strict && ac != Ordering::Less) || (!strict && ac != Ordering::Equal) {
                                    let mut vu = u.clone();
                                    vu.text = format!("{a} {b} {c}");
                                    sink.violation("C11", &vu, 0, "version_sort not transitive", format!("{ab:?} {bc:?} {ac:?}"));
                                }
                            }
                        }
                    }
                }
            }
            "groups" => {
                let kind = u.extra["kind"].as_str().unwrap();
                let universe: &[&str] = match kind {
                    "use" => USE_ELEMS,
                    "mod" => MOD_ELEMS,
                    "crate" => CRATE_ELEMS,
                    _ => LIST_MEMBERS,
                };
                let gc = GroupCheck { u, cfg: &u.cfg, width: 100, group: Default::default(), reported: Default::default() };
                for s in u.extra["subsets"].as_array().unwrap() {
                    let idx: Vec<usize> = s.as_array().unwrap().iter().map(|x| x.as_u64().unwrap() as usize).collect();
                    if kind == "list" {
                        check_list(u, &idx.iter().map(|&i| universe[i]).collect::<Vec<_>>(), tier, sink);
                    } else {
                        let elems: Vec<&str> = idx.iter().map(|&i| universe[i]).collect();
                        gc.check_group(&elems, sink);
                    }
                }
                sink.sample(json!({"layer": "groups", "kind": kind, "config": u.cfg.label(),
                    "first_subset": u.extra["subsets"][0], "permutations": "all"}));
            }
            "big" => check_big(u, sink),
            "barrier" => check_barriers(u, sink),
            "comments" => {
                // comment-carrying elements: tail comment / leading comment, at the
                // edges of the group and in its interior
                let kind = u.extra["kind"].as_str().unwrap();
                let (cs, others): (Vec<&str>, Vec<&str>) = match kind {
                    "use" => (
                        vec!["use m::t; // tail t", "use m::k; /* tail k */"],
                        vec!["use a::x;", "use z::y;", "use m::a;"],
                    ),
                    "mod" => (
                        vec!["mod mt; // tail t"],
                        vec!["mod a;", "mod z;", "mod ma;"],
                    ),
                    _ => (
                        vec!["extern crate mt; // tail t"],
                        vec!["extern crate a;", "extern crate z;", "extern crate ma;"],
                    ),
                };
                let gc = GroupCheck { u, cfg: &u.cfg, width: 100, group: Default::default(), reported: Default::default() };
                for c in &cs {
                    let lead = !c.contains("tail");
                    for (i, e1) in others.iter().enumerate() {
                        // edge of the group: leading comment of the first / trailing
                        // comment of the last element
                        if i < 2 {
                            gc.check_group(&[c, e1], sink);
                        }
                        // interior: the comment element is never first (leading
                        // comment) / never last (trailing comment)
                        for e2 in &others[i + 1..] {
                            gc.check_group_filtered(&[c, e1, e2], sink, &|perm: &[usize]| {
                                if lead {
                                    perm[0] != 0
                                } else {
                                    perm[perm.len() - 1] != 0
                                }
                            });
                        }
                    }
                }
            }
            _ => {}
        }
    }
}

/// Members of one import list: every permutation gives the same text.
fn check_list(u: &Unit, members: &[&str], _tier: Tier, sink: &mut Sink) {
    // `self` and `*` may appear at most once; nested path members are fine
    let strip = |m: &str| m.split(" as ").next().unwrap().to_string();
    let mut eq_pairs = vec![];
    for i in 0..members.len() {
        for j in i + 1..members.len() {
            if members[i] != members[j] && strip(members[i]) == strip(members[j]) {
                eq_pairs.push((i, j));
            }
        }
    }
    let mut firsts: BTreeMap<Vec<bool>, (String, Vec<usize>)> = BTreeMap::new();
    for perm in permutations(members.len()) {
        let class: Vec<bool> = eq_pairs
            .iter()
            .map(|&(i, j)| perm.iter().position(|&x| x == i) < perm.iter().position(|&x| x == j))
            .collect();
        let list: Vec<&str> = perm.iter().map(|&i| members[i]).collect();
        let src = format!("use x::{{{}}};\n", list.join(", "));
        for width in [100usize, 24] {
            let o = fmt::format(&src, &u.cfg, width);
            sink.count("evaluations", 1);
            if !o.ok() {
                continue;
            }
            if o.text != src {
                sink.distinct.insert(hash64(&format!("{src}\u{0}{}", u.cfg.label())));
            }
            // permutation of leaves
            let li = usetree::crate_items(&src, u.cfg.edition).ok();
            let lo = usetree::crate_items(&o.text, u.cfg.edition).ok();
            let leaves = |v: &Option<Vec<ItemInfo>>| -> Option<Vec<usetree::Leaf>> {
                v.as_ref().map(|v| {
                    let mut l: Vec<_> = v.iter().flat_map(|i| i.leaves.clone()).collect();
                    l.sort();
                    l
                })
            };
            if leaves(&li) != leaves(&lo) || lo.is_none() {
                let mut vu = u.clone();
                vu.text = src.clone();
                sink.violation("C11", &vu, width, "list output is not a permutation of the input names", o.text.clone());
            }
            if width == 100 && u.cfg.get("reorder_imports") != Some("false") {
                match firsts.get(&class) {
                    None => {
                        firsts.insert(class.clone(), (o.text.clone(), perm.clone()));
                    }
                    Some((t, p)) => {
                        if *t != o.text {
                            let mut vu = u.clone();
                            vu.text = src.clone();
                            sink.violation(
                                "C11",
                                &vu,
                                width,
                                "list order depends on input order",
                                format!("permutation {:?} gives\n{}\npermutation {:?} gives\n{}", p, t, perm, o.text),
                            );
                        }
                    }
                }
            }
        }
    }
}

/// Large groups: n elements `m00..`, for `use` / list members in alias-only pairs (`as first`, `as second`).
/// Permutation family: identity, reversal, every stride permutation i -> (i * s) mod n with gcd(s, n) = 1, and the
/// riffle of the two halves. Expected order: the stable sort of the input sequence by module number (ASCII order
/// and version sort agree on zero-padded two-digit numbers).
fn check_big(u: &Unit, sink: &mut Sink) {
    let kind = u.extra["kind"].as_str().unwrap();
    let n = u.extra["n"].as_u64().unwrap() as usize;
    // every kind comes in rank-equal pairs: imports / list members differ in the alias only, `mod` / `extern
    // crate` declarations of one name differ in their `#[cfg(..)]` attribute
    let paired = true;
    // element = (module number, alias index)
    let elems: Vec<(usize, usize)> = (0..n).map(|i| if paired { (i / 2, i % 2) } else { (i, 0) }).collect();
    let gcd = |mut a: usize, mut b: usize| {
        while b != 0 {
            let t = a % b;
            a = b;
            b = t;
        }
        a
    };
    let mut perms: Vec<(String, Vec<usize>)> = vec![("reversed".into(), (0..n).rev().collect())];
    for s in 1..n {
        if gcd(s, n) == 1 {
            perms.push((format!("stride{s}"), (0..n).map(|i| (i * s) % n).collect()));
            perms.push((format!("stride{s}+1"), (0..n).map(|i| (i * s + 1) % n).collect()));
        }
    }
    perms.push(("riffle".into(), (0..n).map(|i| if i % 2 == 0 { i / 2 } else { (n + 1) / 2 + i / 2 }).collect()));
    let alias = ["first", "second"];
    let reorder = u.cfg.get("reorder_imports") != Some("false") && u.cfg.get("reorder_modules") != Some("false");
    let mut reported = false;
    for (pname, perm) in perms {
        let seq: Vec<(usize, usize)> = perm.iter().map(|&i| elems[i]).collect();
        let text_of = |&(m, a): &(usize, usize)| match kind {
            "use" => format!("use m{m:02}::item as {};", alias[a]),
            "mod" => format!("#[cfg({})]\nmod m{m:02};", alias[a]),
            "crate" => format!("#[cfg({})]\nextern crate m{m:02};", alias[a]),
            _ => format!("m{m:02} as {}", alias[a]),
        };
        let src = if kind == "list" {
            format!("use x::{{{}}};\n", seq.iter().map(text_of).collect::<Vec<_>>().join(", "))
        } else {
            seq.iter().map(|e| format!("{}\n", text_of(e))).collect::<String>()
        };
        let o = fmt::format(&src, &u.cfg, 100);
        sink.count("evaluations", 1);
        if !o.ok() {
            continue;
        }
        if o.text != src {
            sink.distinct.insert(hash64(&format!("{src}\u{0}{}", u.cfg.label())));
        }
        // observed sequence of (module, alias) from the output's tokens
        let toks: Vec<&str> = o.text.split(|c: char| !(c.is_alphanumeric() || c == '_')).filter(|t| !t.is_empty()).collect();
        let mut got: Vec<(usize, usize)> = vec![];
        let mut last_alias = 9usize; // for mod / extern crate: the cfg attribute stands before the declaration
        for (i, t) in toks.iter().enumerate() {
            if *t == "first" {
                last_alias = 0;
            } else if *t == "second" {
                last_alias = 1;
            }
            if t.len() == 3 && t.starts_with('m') && t[1..].chars().all(|c| c.is_ascii_digit()) {
                let m: usize = t[1..].parse().unwrap();
                let a = if kind == "mod" || kind == "crate" {
                    std::mem::replace(&mut last_alias, 9)
                } else if paired {
                    let al = if kind == "use" { toks.get(i + 3) } else { toks.get(i + 2) };
                    match al {
                        Some(&"first") => 0,
                        Some(&"second") => 1,
                        _ => 9,
                    }
                } else {
                    0
                };
                got.push((m, a));
            }
        }
        let mut want = seq.clone();
        if reorder {
            want.sort_by_key(|&(m, _)| m); // stable
        }
        if got != want && !reported {
            reported = true;
            let mut vu = u.clone();
            vu.text = src.clone();
            let mut g = got.clone();
            g.sort();
            let mut w = want.clone();
            w.sort();
            let what = if g != w {
                "large group: output is not a permutation of the input elements"
            } else {
                "large group: order is not the stable sort of the input (depends on input order / sort algorithm)"
            };
            sink.violation("C11", &vu, 100, what, format!("permutation {pname}\nexpected {want:?}\ngot      {got:?}\n{}", o.text));
        }
    }
    sink.sample(json!({"layer": "big", "kind": kind, "n": n, "config": u.cfg.label()}));
}

fn check_barriers(u: &Unit, sink: &mut Sink) {
    let kind = u.extra["kind"].as_str().unwrap();
    let (elems, barriers): (Vec<&str>, Vec<(&str, &str)>) = match kind {
        "use" => (
            vec!["use b::x;", "use a::y;", "use d::z;", "use c::w;", "use a::b as q;", "use std::v;"],
            vec![
                ("blank", ""),
                ("commentline", "// a comment line of its own"),
                ("otherkind", "fn barrier() {}"),
                ("skipped", "#[rustfmt::skip]\nuse zz::skipped;"),
                ("macro_use_crate", "#[macro_use]\nextern crate mm;"),
                ("mod", "mod between;"),
            ],
        ),
        "mod" => (
            vec!["mod b;", "mod a;", "mod d;", "mod c;", "mod B;"],
            vec![
                ("blank", ""),
                ("commentline", "// a comment line of its own"),
                ("otherkind", "fn barrier() {}"),
                ("macro_use", "#[macro_use]\nmod mm;"),
                ("skipped", "#[rustfmt::skip]\nmod skipped;"),
                ("use", "use between::x;"),
            ],
        ),
        _ => (
            vec!["extern crate b;", "extern crate a;", "extern crate d;", "extern crate c;"],
            vec![
                ("blank", ""),
                ("commentline", "// a comment line of its own"),
                ("otherkind", "fn barrier() {}"),
                ("macro_use", "#[macro_use]\nextern crate mm;"),
                ("skipped", "#[rustfmt::skip]\nextern crate skipped;"),
            ],
        ),
    };
    let regroup = u.cfg.get("group_imports").map_or(false, |g| g != "Preserve");
    let edition = u.cfg.edition;
    for (bname, btext) in &barriers {
        if (*bname == "blank" || *bname == "commentline") && regroup && kind == "use" {
            // regrouping deliberately merges blank-line groups of imports
            continue;
        }
        for i in 0..elems.len() {
            for j in 0..elems.len() {
                if i == j {
                    continue;
                }
                for k in 0..elems.len() {
                    for l in 0..elems.len() {
                        if k == l || [i, j].contains(&k) || [i, j].contains(&l) {
                            continue;
                        }
                        let src = format!("{}\n{}\n{}\n{}\n{}\n", elems[i], elems[j], btext, elems[k], elems[l]);
                        let o = fmt::format(&src, &u.cfg, 100);
                        sink.count("evaluations", 1);
                        if !o.ok() {
                            continue;
                        }
                        if o.text != src {
                            sink.distinct.insert(hash64(&format!("{src}\u{0}{}", u.cfg.label())));
                        }
                        let Some(ok) = keys(&o.text, edition) else {
                            let mut vu = u.clone();
                            vu.text = src.clone();
                            sink.violation("C11", &vu, 100, "output does not parse", o.text.clone());
                            continue;
                        };
                        let key1 = |s: &str| keys(&format!("{s}\n"), edition).and_then(|v| v.into_iter().next());
                        let first: Vec<String> = [elems[i], elems[j]].iter().filter_map(|e| key1(e)).collect();
                        let second: Vec<String> = [elems[k], elems[l]].iter().filter_map(|e| key1(e)).collect();
                        let pos = |k: &String| ok.iter().position(|x| x == k);
                        let is_comment_barrier = btext.starts_with("//");
                        let bpos: Option<usize> = if btext.is_empty() || is_comment_barrier {
                            None
                        } else {
                            key1(btext).and_then(|k| pos(&k))
                        };
                        let mut bad = false;
                        match bpos {
                            Some(bp) => {
                                for f in &first {
                                    if pos(f).map_or(true, |p| p > bp) {
                                        bad = true;
                                    }
                                }
                                for s in &second {
                                    if pos(s).map_or(true, |p| p < bp) {
                                        bad = true;
                                    }
                                }
                            }
                            None if btext.is_empty() || is_comment_barrier => {
                                // blank line / comment line: the first group stays above it
                                let sep = if is_comment_barrier { format!("\n{btext}\n") } else { "\n\n".to_string() };
                                let parts: Vec<&str> = o.text.split(sep.as_str()).collect();
                                if parts.len() != 2 {
                                    bad = true;
                                } else {
                                    let top = keys(&format!("{}\n", parts[0]), edition).unwrap_or_default();
                                    let mut t = top.clone();
                                    t.sort();
                                    let mut f = first.clone();
                                    f.sort();
                                    if t != f {
                                        bad = true;
                                    }
                                }
                            }
                            None => bad = true,
                        }
                        if bad {
                            let mut vu = u.clone();
                            vu.text = src.clone();
                            sink.violation("C11", &vu, 100, &format!("element moved across barrier ({bname})"), o.text.clone());
                        }
                    }
                }
            }
        }
    }
}
