//! C16 — rustfmt never terminates abnormally (in-process half).
//!
//! Enumerated: corpus A (k<=1) x contexts x layouts x widths, default config
//! plus tab_spaces 1..8 / hard_tabs / deviation-1 configs on base forms; every
//! single-token mutation (delete, duplicate, swap, truncate, unbalance,
//! non-ASCII insertion) of every base atom; nesting ladders.
//! Oracle: no panic escapes `Session::format`; the worker does not die.

use serde_json::json;

use super::{corpus_units, CfgMode, Space};
use crate::explore::{hash64, Prop, Sink, Tier, Unit};
use crate::fmt::{Cfg, Status};
use crate::gen::{self, Layout};
use crate::lex::{self, Class};

pub struct C16;

pub fn mutants(text: &str) -> Vec<(String, String)> {
    let toks: Vec<_> = lex::lex(text).into_iter().filter(|t| t.class != Class::Ws).collect();
    let mut out = vec![];
    let mut push = |name: String, s: String| {
        if s != text {
            out.push((name, s));
        }
    };
    for (i, t) in toks.iter().enumerate() {
        // delete
        push(format!("del{i}"), format!("{}{}", &text[..t.start], &text[t.end..]));
        // duplicate
        push(
            format!("dup{i}"),
            format!("{}{} {}", &text[..t.end], "", &text[t.start..]),
        );
        // swap with next
        if let Some(n) = toks.get(i + 1) {
            push(
                format!("swap{i}"),
                format!(
                    "{}{}{}{}{}",
                    &text[..t.start],
                    n.text(text),
                    &text[t.end..n.start],
                    t.text(text),
                    &text[n.end..]
                ),
            );
        }
        // truncate after
        push(format!("trunc{i}"), text[..t.end].to_string());
        // delimiter flip / add
        if matches!(t.class, Class::Open | Class::Close) {
            let flipped = match t.text(text) {
                "(" => ")",
                ")" => "(",
                "{" => "}",
                "}" => "{",
                "[" => "]",
                _ => "[",
            };
            push(
                format!("flip{i}"),
                format!("{}{}{}", &text[..t.start], flipped, &text[t.end..]),
            );
        }
        // an opening quote / comment / raw-string at the gap: everything after it is swallowed
        // by an unterminated literal (the lexer raises a fatal error for these)
        for (j, ins) in ["\"", "/*", "'", "r#\"", "b\"", "/**", "\\"].iter().enumerate() {
            if i % 4 == j % 4 {
                push(format!("open{i}.{j}"), format!("{}{}{}", &text[..t.end], ins, &text[t.end..]));
            }
        }
        // non-ASCII insertion at the gap after the token
        for (j, ins) in ["é", "日本", "a\u{301}", "\u{feff}", "\u{a0}", "🦀"].iter().enumerate() {
            if i % 3 == j % 3 {
                push(
                    format!("uni{i}.{j}"),
                    format!("{}{}{}", &text[..t.end], ins, &text[t.end..]),
                );
            }
        }
    }
    out
}

fn ladders() -> Vec<(String, String)> {
    let mut out = vec![];
    for depth in [1usize, 2, 4, 8, 12, 16] {
        let rep = |open: &str, close: &str, core: &str| {
            format!("{}{}{}", open.repeat(depth), core, close.repeat(depth))
        };
        out.push((format!("blocks{depth}"), format!("fn f() {} \n", rep("{ ", " }", "a"))));
        out.push((format!("parens{depth}"), format!("fn f() {{ let x = {}; }}\n", rep("(", " + 1)", "a"))));
        if depth <= 12 {
            out.push((format!("closures{depth}"), format!("fn f() {{ g({}); }}\n", rep("|x| h(", ")", "x"))));
        }
        out.push((format!("calls{depth}"), format!("fn f() {{ {}; }}\n", rep("f(a, ", ")", "b"))));
        out.push((format!("arrays{depth}"), format!("fn f() {{ let x = {}; }}\n", rep("[", "]", "1, 2"))));
        out.push((format!("generics{depth}"), format!("type A = {};\n", rep("Vec<", ">", "u8"))));
        out.push((format!("tuples{depth}"), format!("type A = {};\n", rep("(u8, ", ")", "u8"))));
        out.push((format!("ifs{depth}"), format!("fn f() {{ {} }}\n", rep("if a { ", " }", "b"))));
        out.push((
            format!("matches{depth}"),
            format!("fn f() {{ {} }}\n", rep("match a { _ => ", " }", "b")),
        ));
        out.push((format!("chain{depth}"), format!("fn f() {{ a{}; }}\n", ".b(c)".repeat(depth))));
        out.push((format!("binop{depth}"), format!("fn f() {{ let x = a{}; }}\n", " + bbbbbbbb".repeat(depth))));
        out.push((format!("mods{depth}"), format!("{}\n", rep("mod m { ", " }", "fn f() {}"))));
        out.push((format!("refs{depth}"), format!("type A = {}u8;\n", "&".repeat(depth))));
    }
    out
}

impl Prop for C16 {
    fn id(&self) -> &'static str {
        "C16"
    }
    fn rule(&self) -> String {
        "corpus A forms (k<=1) x contexts x layouts {L0,LALL,LNONE,LTABS} x every width (quick tier, deviated \
         configurations: every width up to 70 and every fifth above); base forms x tab_spaces 1..8 x hard_tabs and \
         deviation-1 configs, error flags on (the report is rendered the way the binary prints it); all single-token \
         mutants of base atoms (delete/duplicate/swap/truncate/flip delimiter/non-ASCII insert); nesting ladders to \
         depth 16; 12 degenerate comments in every token gap of every base form; every comment content of <= 3 tokens \
         over the markers the re-flow code looks for, one- and two-line, x 5 comment kinds x comment-rewriting options. \
         distinct = distinct input text. Oracle: no panic escapes Session::format or the report renderer, the worker \
         process survives, every unit ends within the time limit."
            .into()
    }
    fn assumptions(&self) -> Vec<String> {
        vec![
            "harness profile has overflow-checks and debug-assertions on (test-profile semantics)".into(),
            "widths restricted to usable pages: max_width >= 20 and >= 5 * tab_spaces".into(),
        ]
    }
    fn units(&self, tier: Tier) -> Vec<Unit> {
        let thorough = tier == Tier::Thorough;
        let mut units = corpus_units(
            &Space {
                k: if thorough { 2 } else { 1 },
                ctx_limit: 3,
                layouts: vec![Layout::L0, Layout::LAll, Layout::LNone, Layout::LTabs],
                style_editions: if thorough { vec![2015, 2024, 2027] } else { vec![2015, 2024] },
                cfg_mode: if thorough { CfgMode::Dev1All } else { CfgMode::Dev1Relevant },
                cfg_ctx_limit: if thorough { 3 } else { 2 },
                l1: thorough,
                dev_editions: if thorough { vec![] } else { vec![2024] },
            },
            None,
        );
        if thorough {
            units.retain(super::thorough_economy);
        }
        if !thorough {
            // quick: deviated forms under style edition 2024 and the layouts {L0, LALL} only; deviated
            // configurations from the one-line layout only
            units.retain(|u| {
                let base_form = u.key.find('[').map_or(true, |i| {
                    u.key[i + 1..u.key.find(']').unwrap_or(i + 1)].split(',').all(|c| c == "0" || c.is_empty())
                });
                if !u.cfg.kv.is_empty() {
                    return u.key.ends_with("/L0");
                }
                // style edition 2015: the one-line and one-token-per-line layouts only
                if u.cfg.style_edition == 2015 && !(u.key.ends_with("/L0") || u.key.ends_with("/LALL")) {
                    return false;
                }
                base_form || u.key.ends_with("/L0") || u.key.ends_with("/LALL")
            });
        }
        // tab_spaces 1..8 x hard_tabs on base forms in the deep contexts
        let deep = gen::programs(0, 99, None);
        for p in &deep {
            if !thorough && p.depth < 2 {
                continue;
            }
            for ts in [1usize, 2, 3, 5, 6, 7, 8] {

                for ht in ["false", "true"] {
                    if !thorough && ht == "true" && ts != 1 {
                        continue;
                    }
                    let mut cfg = Cfg::new(2024).with("tab_spaces", &ts.to_string());
                    if ht == "true" {
                        cfg = cfg.with("hard_tabs", "true");
                    }
                    units.push(super::program_unit(p, Layout::L0, p.text.clone(), cfg));
                }
            }
            // error flags on: the report is non-empty and gets rendered (what the binary prints)
            if thorough || gen::contexts(p.kind).first().map_or(false, |c| c.name == p.ctx) || p.depth >= 5 {
                units.push(super::program_unit(
                    p,
                    Layout::L0,
                    p.text.clone(),
                    Cfg::new(2024).with("error_on_line_overflow", "true").with("error_on_unformatted", "true"),
                ));
                units.push(super::program_unit(
                    p,
                    Layout::L0,
                    p.text.clone(),
                    Cfg::new(2024).with("error_on_line_overflow", "true").with("error_on_unformatted", "true").with("tab_spaces", "8"),
                ));
            }
            // options whose code paths do width arithmetic of their own
            for (k, v) in [
                ("format_strings", "true"),
                ("wrap_comments", "true"),
                ("indent_style", "Visual"),
                ("format_macro_matchers", "true"),
            ] {
                if thorough || p.depth >= 3 {
                    units.push(super::program_unit(
                        p,
                        Layout::LAll,
                        gen::layout(&p.text, Layout::LAll),
                        Cfg::new(2024).with(k, v),
                    ));
                }
            }
        }
        // mutants of base forms in their first context
        let base = gen::programs(0, 1, None);
        for p in &base {
            let first_ctx = gen::contexts(p.kind)[0].name;
            if p.ctx != first_ctx {
                continue;
            }
            for (name, m) in mutants(&p.text) {
                units.push(Unit {
                    key: format!("{}/mut:{}", p.key(), name),
                    text: m,
                    cfg: Cfg::new(2024),
                    extra: json!({"mutant": true}),
                });
            }
        }
        // degenerate comments (empty bodies, bare openers) in every token gap of the base forms
        for p in &base {
            let first_ctx = gen::contexts(p.kind)[0].name;
            if p.ctx != first_ctx {
                continue;
            }
            let toks: Vec<_> = crate::lex::lex(&p.text).into_iter().filter(|t| !t.is_trivia()).collect();
            for (gi, w) in toks.windows(2).enumerate() {
                for (ci, c) in ["/**/", "/***/", "/*!*/", "/* */", "/*\n*/", "//\n", "///\n", "//!\n", "/**\n*/", "/*/*/**/*/*/", "/*\n\n*/", "//\\\n"].iter().enumerate() {
                    // quick tier: the first eight shapes
                    if !thorough && ci >= 8 {
                        continue;
                    }
                    let mut t = String::with_capacity(p.text.len() + 16);
                    t.push_str(&p.text[..w[0].end]);
                    t.push(' ');
                    t.push_str(c);
                    t.push(' ');
                    t.push_str(&p.text[w[0].end..]);
                    for (lname, text) in [("L0", t.clone()), ("LALL", gen::layout(&t, Layout::LAll))] {
                        if lname == "LALL" && c.contains('\n') && c.starts_with("//") {
                            continue; // re-laying out a line comment's own terminator changes the comment
                        }
                        // quick tier: the one-token-per-line layout for the first three shapes
                        if !thorough && lname == "LALL" && ci >= 3 {
                            continue;
                        }
                        units.push(Unit {
                            key: format!("{}/degenerate-comment:g{gi}c{ci}/{lname}", p.key()),
                            text,
                            cfg: Cfg::new(2024),
                            extra: json!({"few_widths": true}),
                        });
                    }
                }
            }
        }
        // comment contents under the comment-rewriting options: every sequence of <= 3 tokens over the markers
        // the re-flow code looks for (block quotes, bullets, ordered items, headers, code fences, blanks), as a
        // one-line comment and as the second line after a marker line, x comment kinds x positions
        let toks = [">", ">>", "-", "*", "+", "1.", "1)", "a", "#", "```", " ", "  "];
        let mut contents: Vec<String> = vec![String::new()];
        let mut frontier: Vec<String> = vec![String::new()];
        for _ in 0..3 {
            let mut next = vec![];
            for f in &frontier {
                for t in toks {
                    next.push(format!("{f}{t}"));
                }
            }
            contents.extend(next.iter().cloned());
            frontier = next;
        }
        let two_line: Vec<(String, String)> = ["> a", "- a", "* a", "1. a", "```", "a", "# a"]
            .iter()
            .flat_map(|l1| contents.iter().filter(|c| c.chars().count() <= 4).map(move |c| (l1.to_string(), c.clone())))
            .collect();
        let comment_cfgs = [
            Cfg::new(2024).with("wrap_comments", "true"),
            Cfg::new(2024).with("wrap_comments", "true").with("normalize_comments", "true"),
            Cfg::new(2024).with("wrap_comments", "true").with("format_code_in_doc_comments", "true"),
            Cfg::new(2024).with("wrap_comments", "true").with("comment_width", "20"),
            Cfg::new(2015).with("normalize_comments", "true"),
        ];
        let render = |kind: &str, lines: &[&str]| -> String {
            match kind {
                "//" | "///" | "//!" => lines.iter().map(|l| format!("{kind} {l}\n")).collect(),
                _ => format!("{kind} {}\n */\n", lines.join("\n * ")),
            }
        };
        for (ki, kind) in ["//", "///", "/*", "/**", "//!"].iter().enumerate() {
            let mut cases: Vec<(String, String)> = vec![];
            for (i, c) in contents.iter().enumerate() {
                cases.push((format!("one{i}"), render(kind, &[c])));
            }
            if thorough || ki < 1 {
                for (i, (a, b)) in two_line.iter().enumerate() {
                    cases.push((format!("two{i}"), render(kind, &[a, b])));
                }
            }
            for (name, c) in cases {
                let texts = if *kind == "//!" {
                    vec![("top", format!("{c}fn f() {{}}\n"))]
                } else {
                    vec![("item", format!("{c}fn f() {{}}\n")), ("stmt", format!("fn f() {{\n{c}a();\n}}\n"))]
                };
                for (pos, text) in texts {
                    for (ci, cfg) in comment_cfgs.iter().enumerate() {
                        // quick tier: the three wrap_comments configurations
                        if !thorough && ci >= 3 {
                            continue;
                        }
                        units.push(Unit {
                            key: format!("comment-content/k{ki}/{name}/{pos}/c{ci}"),
                            text: text.clone(),
                            cfg: cfg.clone(),
                            extra: json!({"few_widths": true}),
                        });
                    }
                }
            }
        }
        for (name, text) in ladders() {
            units.push(Unit {
                key: format!("ladder/{name}"),
                text,
                cfg: Cfg::new(2024),
                extra: json!({"ladder": true}),
            });
        }
        units
    }
    fn check(&self, u: &Unit, tier: Tier, sink: &mut Sink) {
        let is_mutant = u.extra.get("mutant").is_some();
        let is_ladder = u.extra.get("ladder").is_some();
        sink.distinct.insert(hash64(&u.text));
        let mut first = true;
        let mut parsable = false;
        let t0 = std::time::Instant::now();
        if is_ladder {
            // deep nesting is exponential in places: sample the widths that matter
            // (narrow, default, wide) but run every one of them to completion
            for w in [20usize, 40, 60, 80, 100, 120, 200] {
                let out = crate::fmt::format(&u.text, &u.cfg, w);
                if let Status::Panic(m) = &out.status {
                    sink.violation("C16", u, w, "panic", m.clone());
                }
            }
            sink.count("ladder_units", 1);
            if t0.elapsed().as_secs() > 60 {
                sink.violation("C16", u, 0, "hang", format!("{:?}", t0.elapsed()));
            }
            return;
        }
        let few = u.extra.get("few_widths").and_then(|v| v.as_bool()).unwrap_or(false);
        if few {
            // comment handling does no width arithmetic of its own: three widths
            for w in [20usize, 50, 100] {
                let out = crate::fmt::format(&u.text, &u.cfg, w);
                if w == 20 {
                    sink.count(if out.status == Status::Ok { "degenerate_comment_parsable" } else { "degenerate_comment_unparsable" }, 1);
                    if out.status != Status::Ok && !matches!(out.status, Status::Panic(_)) {
                        break;
                    }
                }
                if let Some(m) = &out.render_panic {
                    sink.violation("C16", u, w, "panic while rendering the report", m.clone());
                }
                match &out.status {
                    Status::Panic(m) => sink.violation("C16", u, w, "panic", m.clone()),
                    Status::Err(e) => sink.violation("C16", u, w, "error-result", e.clone()),
                    _ => {}
                }
            }
            return;
        }
        // quick tier, deviated configurations: every width up to 70, every fifth above
        let sparse = tier == Tier::Quick && !u.cfg.kv.is_empty();
        super::sweep_where(&u.text, &u.cfg, tier, |w| !sparse || w <= 70 || w % 5 == 0, |w, out, _same| {
            if first {
                first = false;
                parsable = out.status == Status::Ok;
                if is_mutant {
                    sink.count(if parsable { "mutants_parsable" } else { "mutants_unparsable" }, 1);
                }
                sink.sample(json!({"unit": u.key, "input": u.text, "config": u.cfg.label(), "width": w,
                    "status": format!("{:?}", out.status)}));
            }
            if let Some(m) = &out.render_panic {
                sink.violation("C16", u, w, "panic while rendering the report", m.clone());
            }
            match &out.status {
                Status::Panic(m) => sink.violation("C16", u, w, "panic", m.clone()),
                Status::Err(e) => sink.violation("C16", u, w, "error-result", e.clone()),
                _ => {}
            }
            // unparsable mutants never reach the formatter: the width is irrelevant, one run (the
            // parser's error path costs ~20 ms per call)
            !(is_mutant && !parsable)
        });
    }
}
