//! C17 — file_lines confines changes to the selected code.
//!
//! Enumerated: programs of 3-5 deliberately unformatted top-level items (one a
//! function with three statements) x EVERY set of 1..2 (thorough: 3) line
//! ranges over the grid [0, lines+2] (aligned, cutting, adjacent, overlapping,
//! inverted, past the end) and the empty selection x LF/CRLF x configurations
//! that move lines x widths. Oracle: item / statement spans from the
//! independent parse; unselected spans byte for byte, fully selected items as
//! in the unrestricted output, diagnostics only inside selected code, union
//! equivalence.

use serde_json::json;

use crate::explore::{hash64, Prop, Sink, Tier, Unit};
use crate::fmt::{self, Cfg};
use crate::parse;
use crate::positions::{self, Kind};
use crate::usetree;

pub struct C17;

const A: &str = "struct  A {\n  a : u32 ,\n}\n";
const B: &str = "fn  b ( x : u32 )  ->  u32 {\n  let  y  =  x ;\n      let z=y+1 ;\n  z\n}\n";
const C: &str = "const  C : u32  =  1 ;\n";
const D: &str = "enum  D { X ,\n  Y }\n";
const E: &str = "impl  A {\n  fn  m ( & self ) { }\n}\n";
const F: &str = "static  LONG : & str  =  \"xxxxxxxxxxxxxxxxxxxxxxxxxxxxxxxxxxxxxxxxxxxxxxxxxxxxxxxxxxxxxxxxxxxxxxxxxxxxxxxxxxxxxxxxxxxxxxxxxxxxxxxxx\" ;\n";
const G: &str = "fn  g ( ) {\n  if  a  {  b ( ) ;  }\n  c ( ) ;\n}\n";

/// a run of imports, none of them formatted, with an attribute line, a blank line and a comment line inside it
const H: &str = "use  b :: x ;\n#[cfg(test)]\nuse  a :: {z,   y} ;\n\n// between\nuse  c :: w ;\n";

fn programs() -> Vec<(&'static str, String)> {
    let j = |v: &[&str], sep: &str| v.join(sep);
    vec![
        ("cbd", j(&[C, B, D], "")),
        ("abc", j(&[A, B, C], "\n")),
        ("bec", j(&[B, E, C], "\n")),
        ("dabc", j(&[D, A, B, C], "")),
        ("fbf", j(&[F, B, F], "\n")),
        ("cgb", j(&[C, G, B], "\n\n")),
        ("hb", j(&[H, B], "\n")),
    ]
}

fn line_of(text: &str, off: usize) -> usize {
    text[..off].bytes().filter(|&b| b == b'\n').count() + 1
}

#[derive(Clone, Debug)]
struct SpanInfo {
    lo: usize,
    hi: usize,
    l0: usize,
    l1: usize,
    top: bool,
}

fn spans(text: &str, edition: u16) -> Option<(Vec<SpanInfo>, Vec<SpanInfo>)> {
    // (top-level items, statements of functions)
    let items = usetree::crate_items(text, edition).ok()?;
    let tops: Vec<SpanInfo> = items
        .iter()
        .map(|i| SpanInfo { lo: i.lo, hi: i.hi, l0: line_of(text, i.lo), l1: line_of(text, i.hi.saturating_sub(1).max(i.lo)), top: true })
        .collect();
    let nodes = parse::with_crate(text, edition, |k, ps| positions::collect(k, ps)).ok()?;
    let stmts: Vec<SpanInfo> = nodes
        .iter()
        .filter(|n| n.kind == Kind::Stmt && n.in_fn && n.depth == 2)
        .map(|n| SpanInfo { lo: n.lo, hi: n.hi, l0: line_of(text, n.lo), l1: line_of(text, n.hi.saturating_sub(1).max(n.lo)), top: false })
        .collect();
    Some((tops, stmts))
}

fn intersects(ranges: &[(usize, usize)], l0: usize, l1: usize) -> bool {
    ranges.iter().any(|&(lo, hi)| lo <= hi && lo <= l1 && l0 <= hi)
}

fn inside(ranges: &[(usize, usize)], l0: usize, l1: usize) -> bool {
    // union of ranges covers [l0, l1]
    (l0..=l1).all(|l| ranges.iter().any(|&(lo, hi)| lo <= l && l <= hi))
}

fn ranges_json(ranges: &[(usize, usize)]) -> String {
    let v: Vec<_> = ranges.iter().map(|(lo, hi)| json!({"file": "stdin", "range": [lo, hi]})).collect();
    serde_json::to_string(&v).unwrap()
}

fn merged(ranges: &[(usize, usize)]) -> Vec<(usize, usize)> {
    let mut r: Vec<(usize, usize)> = ranges.iter().copied().filter(|(lo, hi)| lo <= hi).collect();
    r.sort();
    let mut out: Vec<(usize, usize)> = vec![];
    for (lo, hi) in r {
        if let Some(last) = out.last_mut() {
            if lo <= last.1 + 1 {
                last.1 = last.1.max(hi);
                continue;
            }
        }
        out.push((lo, hi));
    }
    out
}

impl Prop for C17 {
    fn id(&self) -> &'static str {
        "C17"
    }
    fn rule(&self) -> String {
        "6 programs of 3-4 deliberately unformatted top-level items (struct, fn with 3 statements, const, enum, impl, over-long \
         static) x LF/CRLF x EVERY single range [lo,hi] over the grid 0..lines+2 (incl. inverted and past-the-end) and the \
         empty selection on all programs, EVERY pair of ranges on the two smallest programs (thorough: all programs), EVERY ordered triple of non-empty \
         ranges over 1..lines on the smallest program x configurations {default, brace_style=AlwaysNextLine, blank_lines_upper_bound=0, error flags on} \
         x widths {40,100} (every width on the smallest program, singles). Non-trivial = the selection is a proper, non-empty \
         subset of the lines and some unselected item is unformatted; distinct = distinct (input, selection, config)."
            .into()
    }
    fn assumptions(&self) -> Vec<String> {
        vec![
            "spans of top-level items and of the statements of function bodies come from the independent parse of the input".into(),
            "runs of use / mod / extern crate declarations are not in the alphabet (rustfmt rewrites such a run as one unit by design)".into(),
            "a diagnostic is judged by the item its output line belongs to, not by its number".into(),
        ]
    }
    fn units(&self, tier: Tier) -> Vec<Unit> {
        let thorough = tier == Tier::Thorough;
        let mut units = vec![];
        let cfgs = vec![
            Cfg::new(2024),
            Cfg::new(2024).with("brace_style", "AlwaysNextLine"),
            Cfg::new(2024).with("blank_lines_upper_bound", "0"),
            Cfg::new(2015).with("error_on_line_overflow", "true").with("error_on_unformatted", "true"),
            // regrouping treats blank lines inside a run of imports as part of the run
            Cfg::new(2024).with("group_imports", "StdExternalCrate"),
            Cfg::new(2024).with("group_imports", "One").with("imports_granularity", "Crate"),
        ];
        for (pi, (name, text)) in programs().into_iter().enumerate() {
            for crlf in [false, true] {
                let t = if crlf { text.replace('\n', "\r\n") } else { text.clone() };
                let nlines = text.lines().count();
                for (ci, cfg) in cfgs.iter().enumerate() {
                    if crlf && ci != 0 {
                        continue;
                    }
                    // singles: one unit per lo
                    for lo in 0..=nlines + 2 {
                        units.push(Unit {
                            key: format!("{name}{}/single/lo{lo}", if crlf { "/crlf" } else { "" }),
                            text: t.clone(),
                            cfg: cfg.clone(),
                            extra: json!({"mode": "single", "lo": lo, "nlines": nlines, "sweep": pi == 0 && ci == 0 && !crlf}),
                        });
                    }
                    // triples on the smallest program, default configuration: one unit per first range
                    if pi == 0 && ci == 0 && !crlf {
                        for lo in 1..=nlines {
                            for hi in lo..=nlines {
                                units.push(Unit {
                                    key: format!("{name}/triple/{lo}-{hi}"),
                                    text: t.clone(),
                                    cfg: cfg.clone(),
                                    extra: json!({"mode": "triple", "lo": lo, "hi": hi, "nlines": nlines}),
                                });
                            }
                        }
                    }
                    // pairs: one unit per first range
                    if (thorough || pi < 2) && !crlf && (ci == 0 || thorough) {
                        for lo in 0..=nlines + 2 {
                            for hi in 0..=nlines + 2 {
                                units.push(Unit {
                                    key: format!("{name}/pair/{lo}-{hi}"),
                                    text: t.clone(),
                                    cfg: cfg.clone(),
                                    extra: json!({"mode": "pair", "lo": lo, "hi": hi, "nlines": nlines, "triples": thorough && pi == 0 && ci == 0}),
                                });
                            }
                        }
                    }
                }
            }
        }
        units
    }
    fn check(&self, u: &Unit, tier: Tier, sink: &mut Sink) {
        let text = &u.text;
        let unix = text.replace("\r\n", "\n");
        let Some((tops, stmts)) = spans(&unix, u.cfg.edition) else {
            sink.count("dropped_unparsable", 1);
            return;
        };
        let import_lines: Vec<(usize, usize)> = usetree::crate_items(&unix, u.cfg.edition)
            .map(|v| v.iter().filter(|i| i.kind == "use").map(|i| (line_of(&unix, i.lo), line_of(&unix, i.hi.saturating_sub(1).max(i.lo)))).collect())
            .unwrap_or_default();
        let n = u.extra["nlines"].as_u64().unwrap() as usize;
        let widths: Vec<usize> = if u.extra["mode"] == "triple" {
            vec![100]
        } else if u.extra["sweep"].as_bool().unwrap_or(false) {
            super::widths_for(&u.cfg, tier)
        } else {
            vec![40, 100]
        };
        let mut selections: Vec<Vec<(usize, usize)>> = vec![];
        match u.extra["mode"].as_str().unwrap() {
            "single" => {
                let lo = u.extra["lo"].as_u64().unwrap() as usize;
                for hi in 0..=n + 2 {
                    selections.push(vec![(lo, hi)]);
                }
                if lo == 0 {
                    selections.push(vec![]);
                }
            }
            "triple" => {
                // every ordered triple of non-empty ranges over 1..=n with this first range
                let lo = u.extra["lo"].as_u64().unwrap() as usize;
                let hi = u.extra["hi"].as_u64().unwrap() as usize;
                for lo2 in 1..=n {
                    for hi2 in lo2..=n {
                        for lo3 in 1..=n {
                            for hi3 in lo3..=n {
                                selections.push(vec![(lo, hi), (lo2, hi2), (lo3, hi3)]);
                            }
                        }
                    }
                }
            }
            _ => {
                let lo = u.extra["lo"].as_u64().unwrap() as usize;
                let hi = u.extra["hi"].as_u64().unwrap() as usize;
                for lo2 in 0..=n + 2 {
                    for hi2 in 0..=n + 2 {
                        selections.push(vec![(lo, hi), (lo2, hi2)]);
                        if u.extra["triples"].as_bool().unwrap_or(false) && lo2 % 3 == 0 {
                            for lo3 in (0..=n + 2).step_by(2) {
                                selections.push(vec![(lo, hi), (lo2, hi2), (lo3, lo3 + 1)]);
                            }
                        }
                    }
                }
            }
        }
        for &w in &widths {
            let full = fmt::format(text, &u.cfg, w);
            if !full.ok() {
                continue;
            }
            let full_unix = full.text.replace("\r\n", "\n");
            let full_items = usetree::crate_items(&full_unix, u.cfg.edition).ok();
            for sel in &selections {
                // A run of reorderable declarations is rewritten as a whole as soon as one member is selected
                // (known finding): selections that intersect some but not all imports of a run are explored on
                // two representatives only (default configuration, single range 3-3 / 1-1).
                if !import_lines.is_empty() {
                    let k = import_lines.iter().filter(|&&(a, b)| intersects(sel, a, b)).count();
                    if k > 0 && k < import_lines.len() {
                        let representative = u.cfg.kv.is_empty() && w == 100 && (sel == &vec![(3usize, 3usize)] || sel == &vec![(1usize, 1usize)]);
                        if !representative {
                            sink.count("partial_run_selection_not_judged", 1);
                            continue;
                        }
                    }
                }
                let js = ranges_json(sel);
                if !rustfmt_nightly::Config::is_valid_key_val("file_lines", &js) {
                    sink.count("rejected_selection", 1);
                    continue;
                }
                let cfg = u.cfg.clone().with("file_lines", &js);
                let o = fmt::format(text, &cfg, w);
                sink.count("evaluations", 1);
                if !o.ok() {
                    sink.count("not_ok", 1);
                    continue;
                }
                let out = o.text.replace("\r\n", "\n");
                let mut problems: Vec<(String, String)> = vec![];
                let sel_lines: usize = (1..=n).filter(|&l| sel.iter().any(|&(lo, hi)| lo <= l && l <= hi)).count();
                // 1. unselected top-level items byte for byte, in order
                let mut cursor = 0usize;
                let mut some_unselected = false;
                for it in &tops {
                    if !intersects(sel, it.l0, it.l1) {
                        some_unselected = true;
                        let bytes = &unix[it.lo..it.hi];
                        match out[cursor..].find(bytes) {
                            Some(p) => cursor += p + bytes.len(),
                            None => problems.push((
                                "unselected item changed".into(),
                                format!("item lines {}-{} not found verbatim (in order): {:?}", it.l0, it.l1, bytes),
                            )),
                        }
                    }
                }
                // 2. unselected statements of a function byte for byte
                for st in &stmts {
                    if !intersects(sel, st.l0, st.l1) {
                        let bytes = &unix[st.lo..st.hi];
                        if !out.contains(bytes) {
                            problems.push((
                                "unselected statement changed".into(),
                                format!("statement lines {}-{}: {:?}", st.l0, st.l1, bytes),
                            ));
                        }
                    }
                }
                // 3. items entirely inside the selection: as in the unrestricted output
                if let (Some(fi), Ok(oi)) = (&full_items, usetree::crate_items(&out, u.cfg.edition)) {
                    if fi.len() == tops.len() && oi.len() == tops.len() {
                        for (k, it) in tops.iter().enumerate() {
                            if inside(sel, it.l0, it.l1) {
                                let a = &full_unix[fi[k].lo..fi[k].hi];
                                let b = &out[oi[k].lo..oi[k].hi];
                                if a != b {
                                    problems.push((
                                        "selected item not formatted as without the restriction".into(),
                                        format!("item lines {}-{}\n--- unrestricted ---\n{a}\n--- restricted ---\n{b}", it.l0, it.l1),
                                    ));
                                }
                            }
                        }
                        // 4. diagnostics only inside selected code
                        for e in &o.entries {
                            if e.kind != "LineOverflow" && e.kind != "TrailingWhitespace" {
                                continue;
                            }
                            // which item does output line e.line belong to?
                            for (k, it) in tops.iter().enumerate() {
                                let ol0 = line_of(&out, oi[k].lo);
                                let ol1 = line_of(&out, oi[k].hi.saturating_sub(1).max(oi[k].lo));
                                if ol0 <= e.line && e.line <= ol1 && !intersects(sel, it.l0, it.l1) {
                                    problems.push((
                                        "diagnostic for unselected code".into(),
                                        format!("{} on output line {} (item source lines {}-{})", e.kind, e.line, it.l0, it.l1),
                                    ));
                                }
                            }
                        }
                    } else {
                        problems.push(("item count changed".into(), format!("{} -> {}", tops.len(), oi.len())));
                    }
                } else {
                    problems.push(("restricted output does not parse".into(), out.clone()));
                }
                // 5. the empty selection changes nothing
                if sel.is_empty() || sel.iter().all(|(lo, hi)| lo > hi) {
                    if out != unix {
                        problems.push(("empty selection changed the text".into(), out.clone()));
                    }
                }
                // 6. union equivalence
                if sel.len() > 1 {
                    let m = merged(sel);
                    if m.len() < sel.iter().filter(|(lo, hi)| lo <= hi).count() || m.len() != sel.len() {
                        let cfg2 = u.cfg.clone().with("file_lines", &ranges_json(&m));
                        let o2 = fmt::format(text, &cfg2, w);
                        if o2.ok() && o2.text != o.text {
                            problems.push((
                                "overlapping / adjacent ranges differ from their union".into(),
                                format!("union {m:?}\n--- ranges ---\n{}\n--- union ---\n{}", o.text, o2.text),
                            ));
                        }
                    }
                }
                if some_unselected && sel_lines > 0 && out != unix {
                    sink.distinct.insert(hash64(&format!("{text}\u{0}{js}\u{0}{}", u.cfg.label())));
                }
                if !problems.is_empty() {
                    let mut vu = u.clone();
                    vu.cfg = cfg.clone();
                    let (what, _) = &problems[0];
                    let detail: String = problems.iter().map(|(a, b)| format!("{a}: {b}\n")).collect();
                    sink.violation("C17", &vu, w, what, format!("selection {js}\n{detail}--- output ---\n{}", o.text));
                }
            }
        }
        sink.sample(json!({"unit": u.key, "input": text, "config": u.cfg.label(), "selections": selections.len()}));
    }
}
