//! C09 — released style editions are frozen.
//!
//! (a) style editions 2015 / 2018 / 2021 emit identical text (parser edition fixed);
//! (b) for every released style edition the working-tree build emits the bytes
//!     the frozen build of the pinned sources (/verif/frozen, `vh-frozen`) emits,
//!     for every case the frozen build formats without error.
//! Enumerated: corpus A x contexts x layouts x config deviations x every width;
//! corpus B = every fixture of the repository under its own header configuration.

use std::cell::RefCell;
use std::io::{BufRead, BufReader, Write};
use std::process::{Child, ChildStdin, ChildStdout, Command, Stdio};

use rustfmt_nightly::Config;
use serde_json::{json, Value};

use super::{corpus_units, widths_for, CfgMode, Space};
use crate::explore::{hash64, Prop, Sink, Tier, Unit};
use crate::fmt::{self, Cfg, Status};
use crate::gen::Layout;

pub struct C09;

pub const FROZEN_BIN: &str = "/verif/.build/frozen/debug/vh-frozen";

struct Frozen {
    _child: Child,
    stdin: ChildStdin,
    stdout: BufReader<ChildStdout>,
}

thread_local! {
    static FROZEN: RefCell<Option<Frozen>> = RefCell::new(None);
}

fn frozen_request(req: &Value) -> Result<Value, String> {
    FROZEN.with(|f| {
        let mut f = f.borrow_mut();
        if f.is_none() {
            let mut child = Command::new(FROZEN_BIN)
                .stdin(Stdio::piped())
                .stdout(Stdio::piped())
                .stderr(Stdio::null())
                .spawn()
                .map_err(|e| format!("cannot start {FROZEN_BIN}: {e}"))?;
            let stdin = child.stdin.take().unwrap();
            let stdout = BufReader::new(child.stdout.take().unwrap());
            *f = Some(Frozen { _child: child, stdin, stdout });
        }
        let fr = f.as_mut().unwrap();
        let line = serde_json::to_string(req).unwrap();
        let res = (|| -> Result<Value, String> {
            writeln!(fr.stdin, "{line}").map_err(|e| e.to_string())?;
            fr.stdin.flush().map_err(|e| e.to_string())?;
            let mut resp = String::new();
            fr.stdout.read_line(&mut resp).map_err(|e| e.to_string())?;
            if resp.is_empty() {
                return Err("frozen build died".to_string());
            }
            serde_json::from_str(&resp).map_err(|e| e.to_string())
        })();
        if res.is_err() {
            // restart on the next request
            *f = None;
        }
        res
    })
}

pub fn frozen_outputs(text: &str, cfg: &Cfg, se: u16, widths: &[usize], full: bool) -> Result<Vec<(String, u64, Option<String>)>, String> {
    let req = json!({
        "text": text, "style_edition": se, "edition": cfg.edition,
        "kv": cfg.kv.iter().map(|(k, v)| json!([k, v])).collect::<Vec<_>>(),
        "widths": widths, "full": full,
    });
    let v = frozen_request(&req)?;
    let arr = v["r"].as_array().ok_or("bad response")?;
    Ok(arr
        .iter()
        .map(|e| {
            (
                e[0].as_str().unwrap_or("").to_string(),
                e[1].as_u64().unwrap_or(0),
                e.get(2).and_then(|t| t.as_str()).map(|s| s.to_string()),
            )
        })
        .collect())
}

/// Fixtures of the repository with their header configuration.
pub fn corpus_b() -> Vec<(String, String, Vec<(String, String)>)> {
    let mut out = vec![];
    for root in ["/repo/tests/source", "/repo/tests/target"] {
        let mut stack = vec![std::path::PathBuf::from(root)];
        while let Some(d) = stack.pop() {
            let Ok(rd) = std::fs::read_dir(&d) else { continue };
            let mut ents: Vec<_> = rd.filter_map(|e| e.ok()).map(|e| e.path()).collect();
            ents.sort();
            for p in ents {
                if p.is_dir() {
                    stack.push(p);
                    continue;
                }
                if p.extension().map_or(true, |e| e != "rs") {
                    continue;
                }
                let Ok(text) = std::fs::read_to_string(&p) else { continue };
                let mut kv = vec![];
                let mut ok = true;
                for line in text.lines() {
                    let l = line.trim_start();
                    let Some(rest) = l.strip_prefix("//") else { continue };
                    let rest = rest.trim_start();
                    let Some(rest) = rest.strip_prefix("rustfmt-") else { continue };
                    let Some((k, v)) = rest.split_once(':') else { continue };
                    let (k, v) = (k.trim(), v.trim());
                    if k == "max_width" {
                        continue;
                    }
                    if matches!(k, "config" | "file_lines" | "ignore" | "skip_children" | "emit_mode" | "required_version" | "disable_all_formatting" | "style_edition" | "version" | "edition" | "skip_macro_invocations" | "verbose" | "color" | "make_backup" | "print_misformatted_file_names")
                        || !Config::is_valid_key_val(k, v)
                    {
                        ok = false;
                        break;
                    }
                    kv.push((k.to_string(), v.to_string()));
                }
                if ok && text.len() < 60_000 {
                    out.push((p.strip_prefix("/repo/tests").unwrap().display().to_string(), text, kv));
                }
            }
        }
    }
    out.sort();
    out
}

impl Prop for C09 {
    fn id(&self) -> &'static str {
        "C09"
    }
    fn rule(&self) -> String {
        "corpus A (syntax deviation <=1 quick / <=2 thorough) x contexts x {L0, LALL} x configuration deviations <=1 \
         (thorough: interaction pairs) x style editions {2015,2018,2021,2024} x every width (quick tier, deviated configurations: every width up to 70 and every fifth above), plus corpus B (every .rs fixture \
         under tests/source and tests/target with its header configuration; quick: widths {60,100}, thorough: every width). \
         Oracles: out(2015)==out(2018)==out(2021); working-tree bytes == bytes of the frozen build of the pinned sources for \
         every case the frozen build formats without error. Non-trivial = emitted text differs from the input; distinct = \
         distinct (input, config)."
            .into()
    }
    fn assumptions(&self) -> Vec<String> {
        vec![
            "/verif/frozen is the `git archive` of the audited commit (f8b5722) and is built unmodified as vh-frozen".into(),
            "only emitted text is compared; diagnostics may differ".into(),
        ]
    }
    fn units(&self, tier: Tier) -> Vec<Unit> {
        let thorough = tier == Tier::Thorough;
        let mut units = corpus_units(
            &Space {
                k: if thorough { 2 } else { 1 },
                ctx_limit: if thorough { 3 } else { 2 },
                layouts: vec![Layout::L0, Layout::LAll],
                style_editions: vec![2015],
                cfg_mode: if thorough { CfgMode::Dev2 } else { CfgMode::Dev1Relevant },
                cfg_ctx_limit: if thorough { 2 } else { 1 },
                l1: false,
                dev_editions: vec![],
            },
            None,
        );
        for u in units.iter_mut() {
            u.extra["corpus"] = json!("A");
        }
        if thorough {
            units.retain(super::thorough_economy);
        }
        if !thorough {
            // quick: deviated configurations on the one-line layout only, deviated forms on LALL only
            units.retain(|u| {
                let dev_cfg = !u.cfg.kv.is_empty();
                let base_form = u.key.find('[').map_or(true, |i| {
                    u.key[i + 1..u.key.find(']').unwrap_or(i + 1)].split(',').all(|c| c == "0" || c.is_empty())
                });
                if dev_cfg {
                    u.key.ends_with("/L0")
                } else if base_form {
                    true
                } else {
                    u.key.ends_with("/LALL")
                }
            });
        }
        for (name, text, kv) in corpus_b() {
            let mut cfg = Cfg::new(2015);
            cfg.kv = kv;
            units.push(Unit {
                key: format!("fixture{name}"),
                text,
                cfg,
                extra: json!({"corpus": "B"}),
            });
        }
        // groups of more than 20 reorderable declarations with rank-equal pairs (the order the pinned release
        // gives them depends on its sort being stable; std switches algorithm above 20 elements)
        for kind in ["use", "mod", "crate"] {
            for n in [22usize, 33, 64] {
                let elems: Vec<(usize, usize)> = (0..n).map(|i| (i / 2, i % 2)).collect();
                let perms: Vec<(&str, Vec<usize>)> = vec![
                    ("reversed", (0..n).rev().collect()),
                    ("stride7", (0..n).map(|i| (i * 7) % n).collect()),
                    ("stride13", (0..n).map(|i| (i * 13 + 1) % n).collect()),
                    ("riffle", (0..n).map(|i| if i % 2 == 0 { i / 2 } else { (n + 1) / 2 + i / 2 }).collect()),
                ];
                for (pname, perm) in perms {
                    let mut seen = vec![false; n];
                    if perm.iter().any(|&i| std::mem::replace(&mut seen[i], true)) {
                        continue; // not a permutation for this n
                    }
                    let text: String = perm
                        .iter()
                        .map(|&i| {
                            let (m, a) = elems[i];
                            let al = ["first", "second"][a];
                            match kind {
                                "use" => format!("use m{m:02}::item as {al};\n"),
                                "mod" => format!("#[cfg({al})]\nmod m{m:02};\n"),
                                _ => format!("#[cfg({al})]\nextern crate m{m:02};\n"),
                            }
                        })
                        .collect();
                    units.push(Unit {
                        key: format!("biggroup/{kind}/n{n}/{pname}"),
                        text,
                        cfg: Cfg::new(2015),
                        extra: json!({"corpus": "B"}),
                    });
                }
            }
        }
        units
    }
    fn check(&self, u: &Unit, tier: Tier, sink: &mut Sink) {
        let thorough = tier == Tier::Thorough;
        let is_b = u.extra["corpus"] == "B";
        let widths: Vec<usize> = if is_b && !thorough {
            vec![60, 100]
        } else if !thorough && !u.cfg.kv.is_empty() {
            // quick tier, deviated configurations: every width up to 70, every fifth above
            widths_for(&u.cfg, tier).into_iter().filter(|w| *w <= 70 || w % 5 == 0).collect()
        } else {
            widths_for(&u.cfg, tier)
        };
        // outputs of the working tree per style edition
        let ses: [u16; 4] = [2015, 2018, 2021, 2024];
        // quick tier, deviated configurations: style edition 2015 only (2024 runs on the default configuration)
        let light = !thorough && !is_b && !u.cfg.kv.is_empty();
        let mut cur: Vec<Vec<(Status, u64, String)>> = vec![];
        for se in ses {
            if light && se != 2015 {
                cur.push(vec![]);
                continue;
            }
            let mut cfg = u.cfg.clone();
            cfg.style_edition = se;
            // parser edition fixed across style editions (2021), 2024 for the corpus-B 2024 runs too
            cfg.edition = u.cfg.edition;
            let mut v = vec![];
            for &w in &widths {
                let o = fmt::format(&u.text, &cfg, w);
                v.push((o.status.clone(), hash64(&o.text), o.text));
            }
            cur.push(v);
        }
        let mut nontrivial = false;
        // (a) 2015 == 2018 == 2021
        for (wi, &w) in widths.iter().enumerate() {
            for k in [1usize, 2] {
                if light {
                    continue;
                }
                if cur[0][wi].0 == Status::Ok && (cur[k][wi].0 != cur[0][wi].0 || cur[k][wi].1 != cur[0][wi].1) {
                    sink.violation(
                        "C09",
                        u,
                        w,
                        &format!("style edition {} differs from 2015", ses[k]),
                        format!("--- 2015 ---\n{}--- {} ---\n{}", cur[0][wi].2, ses[k], cur[k][wi].2),
                    );
                }
            }
            if cur[0][wi].2 != u.text {
                nontrivial = true;
            }
        }
        // (b) frozen build
        let compare: &[usize] = if thorough || is_b {
            &[0, 1, 2, 3]
        } else if light {
            &[0]
        } else {
            &[0, 3]
        };
        for &k in compare {
            let fr = match frozen_outputs(&u.text, &u.cfg, ses[k], &widths, false) {
                Ok(f) => f,
                Err(e) => {
                    sink.count("frozen_errors", 1);
                    if let Ok(p) = std::env::var("VERIF_SLOWLOG") {
                        use std::io::Write as _;
                        if let Ok(mut f) = std::fs::OpenOptions::new().create(true).append(true).open(p) {
                            let _ = writeln!(f, "FROZEN-ERROR {e}\t{}\t{}\t{:?}", u.key, u.cfg.label(), u.text);
                        }
                    }
                    continue;
                }
            };
            sink.count("evaluations", widths.len() as u64 * 2);
            for (wi, &w) in widths.iter().enumerate() {
                let (fst, fh, _) = &fr[wi];
                if fst != "ok" {
                    // "for every source text that the pinned release formats without error": parse errors,
                    // errors, panics, and panics the release contained while formatting a macro are not references
                    sink.count(if fst == "ok-contained-panic" { "frozen_contained_panic" } else { "frozen_not_ok" }, 1);
                    continue;
                }
                let (cst, ch, ctext) = &cur[k][wi];
                if *cst != Status::Ok || ch != fh {
                    let ftext = frozen_outputs(&u.text, &u.cfg, ses[k], &[w], true)
                        .ok()
                        .and_then(|v| v.into_iter().next())
                        .and_then(|x| x.2)
                        .unwrap_or_default();
                    let mut vu = u.clone();
                    vu.cfg.style_edition = ses[k];
                    sink.violation(
                        "C09",
                        &vu,
                        w,
                        "output differs from the pinned release",
                        format!("working tree status {cst:?}\n--- working tree ---\n{ctext}--- pinned ---\n{ftext}"),
                    );
                }
            }
        }
        if nontrivial {
            sink.distinct.insert(hash64(&format!("{}\u{0}{}", u.text, u.cfg.label())));
        }
        sink.sample(json!({"unit": u.key, "input": crate::explore::shorten(&u.text, 300), "config": u.cfg.label(),
            "style_editions": ses, "widths": format!("{}..{}", widths.first().unwrap_or(&0), widths.last().unwrap_or(&0))}));
    }
}
