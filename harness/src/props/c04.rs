//! C04 — skip-marked code is emitted verbatim (in-process half).
//!
//! Enumerated: node kind x skip spelling x nesting context x widths x
//! configuration deviations; skip::macros / skip_macro_invocations /
//! skip::attributes at item, module and crate level. The skipped node's text
//! is deliberately mis-laid-out so that formatting cannot reproduce it; an
//! unmarked sibling with the same ugly layout must NOT survive.
//! (Whole-file opt-outs are the CLI half, drivers/c04_cli.py.)

use serde_json::json;

use super::widths_for;
use crate::explore::{hash64, Prop, Sink, Tier, Unit};
use crate::fmt::{self, Cfg};
use crate::parse;

pub struct C04;

pub static SPELLINGS: &[&str] = &[
    "#[rustfmt::skip]",
    "#[cfg_attr(rustfmt, rustfmt::skip)]",
    "#[rustfmt_skip]",
    "#[cfg_attr(rustfmt, rustfmt_skip)]",
    "#[cfg_attr(any(), rustfmt::skip)]",
];

/// (kind, where the node may stand, ugly node text with NAME placeholder)
struct NodeKind {
    name: &'static str,
    /// item | assoc | foreign | stmt | field | variant | arm | expr
    class: &'static str,
    text: &'static str,
}

/// Inner-form skip attribute inside the body of an inline item: the whole item keeps its bytes.
/// `INNER` is replaced by the attribute (marked node) or by nothing (sibling).
static INNER_NODES: &[NodeKind] = &[
    NodeKind { name: "inner-fn", class: "item", text: "fn  NAME ( a : u32 )  {INNER  let  x=1 ;\n   x }" },
    NodeKind { name: "inner-mod", class: "item", text: "mod  NAME  {INNER  fn  f ( ) { }\n     fn g(){} }" },
    NodeKind { name: "inner-impl", class: "item", text: "impl  NAME  {INNER  fn  f ( ) { }\n        fn g(){} }" },
    NodeKind { name: "inner-trait", class: "item", text: "trait  NAME  {INNER  fn  f ( ) ;\n        fn g(){} }" },
    NodeKind { name: "inner-extern", class: "item", text: "extern  \"C\"  {INNER  fn  NAME ( a : u32 ,\n   b : u8 ) ; }" },
    NodeKind { name: "inner-method", class: "assoc", text: "fn  NAME ( & self )  {INNER  let  x=1 ;\n   x }" },
    NodeKind { name: "inner-block-stmt", class: "stmt", text: "{INNER  NAME ( 1 ,\n     2 ) ; }" },
    NodeKind { name: "inner-loop", class: "stmt", text: "loop  {INNER  NAME ( 1 ,\n     2 ) ; }" },
    NodeKind { name: "inner-match", class: "stmt", text: "match  NAME  {INNER  A  =>  1 ,\n   _  =>  2 }" },
];

pub static INNER_SPELLINGS: &[&str] = &[
    " #![rustfmt::skip]\n",
    " #![cfg_attr(rustfmt, rustfmt::skip)]\n",
    " #![rustfmt_skip]\n",
];

static NODES: &[NodeKind] = &[
    NodeKind { name: "fn", class: "item", text: "fn  NAME ( a : u32 ,\n      b:u32 )  {  let  x=1 ;\n }" },
    NodeKind { name: "struct", class: "item", text: "struct  NAME {  a : u32 ,\n        b:u8 }" },
    NodeKind { name: "tuple-struct", class: "item", text: "struct  NAME ( u32 ,\n  u8 ) ;" },
    NodeKind { name: "enum", class: "item", text: "enum  NAME {  A ,\n      B ( u32 ) }" },
    NodeKind { name: "union", class: "item", text: "union  NAME {  a : u32 ,\n      b:f32 }" },
    NodeKind { name: "impl", class: "item", text: "impl  NAME {  fn  f ( ) { }\n        fn g(){} }" },
    NodeKind { name: "trait", class: "item", text: "trait  NAME {  fn  f ( ) ;\n        fn g(){} }" },
    NodeKind { name: "const", class: "item", text: "const  NAME : [ u32 ;  2 ]  =  [ 1 ,\n   2 ] ;" },
    NodeKind { name: "static", class: "item", text: "static  NAME : [ u32 ;  2 ]  =  [ 1 ,\n   2 ] ;" },
    NodeKind { name: "type", class: "item", text: "type  NAME  =  Vec < (  u32 ,\n   u8 ) > ;" },
    NodeKind { name: "use", class: "item", text: "use  NAME :: {  b ,\n   a } ;" },
    NodeKind { name: "extern-crate", class: "item", text: "extern  crate  NAME  as\n   other_NAME ;" },
    NodeKind { name: "mod", class: "item", text: "mod  NAME {  fn  f ( ) { }\n     fn g(){} }" },
    NodeKind { name: "macro-rules", class: "item", text: "macro_rules!  NAME {  ( $a:expr )  =>  {  $a  +  1  } ;\n }" },
    NodeKind { name: "macro-item", class: "item", text: "NAME ! {  a ,\n     b }" },
    NodeKind { name: "foreign-mod", class: "item", text: "extern  \"C\"  {  fn  NAME ( a : u32 ,\n   b : u8 ) ; }" },
    NodeKind { name: "assoc-fn", class: "assoc", text: "fn  NAME ( & self ,\n      b:u32 )  {  let  x=1 ;\n }" },
    NodeKind { name: "assoc-const", class: "assoc", text: "const  NAME : [ u32 ;  2 ]  =  [ 1 ,\n   2 ] ;" },
    NodeKind { name: "assoc-type", class: "assoc", text: "type  NAME  =  Vec < (  u32 ,\n   u8 ) > ;" },
    NodeKind { name: "foreign-fn", class: "foreign", text: "fn  NAME ( a : u32 ,\n   b : u8 ) ;" },
    NodeKind { name: "foreign-static", class: "foreign", text: "static  NAME :  [ u32 ;\n   2 ] ;" },
    NodeKind { name: "let", class: "stmt", text: "let  NAME  =  [ 1 ,\n     2 ] ;" },
    NodeKind { name: "let-else", class: "stmt", text: "let  Some ( NAME )  =  opt  else  {  return\n  } ;" },
    NodeKind { name: "expr-stmt", class: "stmt", text: "NAME ( 1 ,\n     2 ) ;" },
    NodeKind { name: "tail-less-if", class: "stmt", text: "if  NAME  {  a ( ) ;\n  }" },
    NodeKind { name: "match-stmt", class: "stmt", text: "match  NAME  {  A  =>  1 ,\n   _  =>  2 } ;" },
    NodeKind { name: "macro-stmt", class: "stmt", text: "NAME ! (  a ,\n     b ) ;" },
    NodeKind { name: "item-stmt", class: "stmt", text: "fn  NAME ( a : u32 ,\n      b:u32 )  {  }" },
    NodeKind { name: "field", class: "field", text: "NAME  :  Vec < (  u32 ,\n   u8 ) >" },
    NodeKind { name: "variant", class: "variant", text: "NAME {  a : u32 ,\n      b:u8 }" },
    NodeKind { name: "variant-tuple", class: "variant", text: "NAME (  u32 ,\n      u8 )" },
    NodeKind { name: "arm", class: "arm", text: "NAME ( x ,\n    y )   =>   {  x  +  y  }" },
    NodeKind { name: "arm-expr", class: "arm", text: "NAME   =>   foo ( 1 ,\n     2 )" },
    NodeKind { name: "expr-arg", class: "expr", text: "[ NAME ,\n     2 ]" },
    NodeKind { name: "expr-call", class: "expr", text: "NAME ( 1 ,\n     2 )" },
];

struct Ctx {
    name: &'static str,
    class: &'static str,
    /// MARKED and SIBLING placeholders
    text: &'static str,
}

static CTXS: &[Ctx] = &[
    Ctx { name: "top", class: "item", text: "MARKED\nSIBLING\n" },
    Ctx { name: "top-after", class: "item", text: "SIBLING\nMARKED\n" },
    Ctx { name: "mod", class: "item", text: "mod outer {\nMARKED\nSIBLING\n}\n" },
    Ctx { name: "mod3", class: "item", text: "mod m1 { mod m2 { mod m3 {\nMARKED\nSIBLING\n} } }\n" },
    Ctx { name: "fn-body", class: "item", text: "fn outer() {\nMARKED\nSIBLING\n}\n" },
    Ctx { name: "impl", class: "assoc", text: "impl Outer {\nMARKED\nSIBLING\n}\n" },
    Ctx { name: "trait", class: "assoc", text: "trait Outer {\nMARKED\nSIBLING\n}\n" },
    Ctx { name: "mod-impl", class: "assoc", text: "mod m { impl Outer for T {\nMARKED\nSIBLING\n} }\n" },
    Ctx { name: "extern", class: "foreign", text: "extern \"C\" {\nMARKED\nSIBLING\n}\n" },
    Ctx { name: "fn", class: "stmt", text: "fn outer() {\nMARKED\nSIBLING\n}\n" },
    Ctx { name: "fn-last", class: "stmt", text: "fn outer() {\nSIBLING\nMARKED\n}\n" },
    Ctx { name: "depth3", class: "stmt", text: "fn outer() { if a { loop { while b {\nMARKED\nSIBLING\n} } } }\n" },
    Ctx { name: "closure-in-call", class: "stmt", text: "fn outer() { run(|| {\nMARKED\nSIBLING\n}); }\n" },
    Ctx { name: "closure-in-macro", class: "stmt", text: "fn outer() { foo!(|| {\nMARKED\nSIBLING\n}); }\n" },
    Ctx { name: "method-in-mod", class: "stmt", text: "mod m { impl T { fn outer(&self) {\nMARKED\nSIBLING\n} } }\n" },
    Ctx { name: "arm-block", class: "stmt", text: "fn outer() { match q { _ => {\nMARKED\nSIBLING\n} } }\n" },
    Ctx { name: "struct", class: "field", text: "struct Outer {\nMARKED,\nSIBLING,\n}\n" },
    Ctx { name: "struct-last", class: "field", text: "struct Outer {\nSIBLING,\nMARKED\n}\n" },
    Ctx { name: "enum", class: "variant", text: "enum Outer {\nMARKED,\nSIBLING,\n}\n" },
    Ctx { name: "enum-in-fn", class: "variant", text: "fn outer() { enum Outer {\nSIBLING,\nMARKED,\n} }\n" },
    Ctx { name: "match", class: "arm", text: "fn outer() { match q {\nMARKED,\nSIBLING,\n_ => {} } }\n" },
    Ctx { name: "match-deep", class: "arm", text: "fn outer() { if a { let v = match q {\nSIBLING,\nMARKED,\n_ => {} }; } }\n" },
    Ctx { name: "call-arg", class: "expr", text: "fn outer() { callee(\nMARKED,\nSIBLING); }\n" },
    Ctx { name: "array-elem", class: "expr", text: "fn outer() { let v = [\nSIBLING,\nMARKED]; }\n" },
    Ctx { name: "let-init", class: "expr", text: "fn outer() { let v =\nMARKED; let w =\nSIBLING; }\n" },
];

/// skip::macros / skip_macro_invocations / skip::attributes cases:
/// (name, program, verbatim needles, text that must change)
fn scoped_cases() -> Vec<(String, String, Vec<String>, Vec<String>, Vec<(String, String)>)> {
    let ugly_call = |m: &str| format!("{m} ! (  a ,\n        b  ,  c )");
    let mut v = vec![];
    for (scope_name, pre, post) in [
        ("item", "#[rustfmt::skip::macros(skipme)]\nfn outer() {\n", "\n}\n"),
        ("mod", "#[rustfmt::skip::macros(skipme)]\nmod m { fn outer() {\n", "\n} }\n"),
        ("crate", "#![rustfmt::skip::macros(skipme)]\nfn outer() {\n", "\n}\n"),
        ("nested", "#[rustfmt::skip::macros(skipme)]\nmod m { mod n { impl T { fn outer() { if a {\n", "\n} } } } }\n"),
    ] {
        let prog = format!("{pre}{};\n{};{post}", ugly_call("skipme"), ugly_call("other"));
        v.push((format!("skip-macros/{scope_name}"), prog, vec![ugly_call("skipme")], vec![ugly_call("other")], vec![]));
    }
    for (cfgv, skips_other) in [("[\"skipme\"]", false), ("[\"*\"]", true)] {
        for (depth_name, pre, post) in [
            ("d1", "fn outer() {\n", "\n}\n"),
            ("d3", "mod m { impl T { fn outer() { loop {\n", "\n} } } }\n"),
            ("item-pos", "", "\n"),
        ] {
            let prog = format!("{pre}{};\n{};{post}", ugly_call("skipme"), ugly_call("other"));
            let mut verb = vec![ugly_call("skipme")];
            let mut chg = vec![];
            if skips_other {
                verb.push(ugly_call("other"));
            } else {
                chg.push(ugly_call("other"));
            }
            v.push((
                format!("skip_macro_invocations={cfgv}/{depth_name}"),
                prog,
                verb,
                chg,
                vec![("skip_macro_invocations".to_string(), cfgv.to_string())],
            ));
        }
    }
    let ugly_attr = |a: &str| format!("#[{a}(  x ,\n    y  =  \"z\" )]");
    for (pos_name, pre, mid, post) in [
        ("item", "#[rustfmt::skip::attributes(keepme)]\n", "\nfn  outer ( ) { }\n", "\nfn  second ( ) { }\n"),
        ("field", "#[rustfmt::skip::attributes(keepme)]\nstruct S {\n", "\na : u32 ,\n", "\nb : u32 ,\n}\n"),
        ("stmt", "#[rustfmt::skip::attributes(keepme)]\nfn outer() {\n", "\nlet a = 1;\n", "\nlet b = 2;\n}\n"),
        ("crate", "#![rustfmt::skip::attributes(keepme)]\nmod m {\n", "\nfn  f ( ) { }\n", "\nfn  g ( ) { }\n}\n"),
    ] {
        let prog = format!("{pre}{}{mid}{}{post}", ugly_attr("keepme"), ugly_attr("other"));
        v.push((
            format!("skip-attributes/{pos_name}"),
            prog,
            vec![ugly_attr("keepme")],
            vec![ugly_attr("other")],
            vec![],
        ));
    }
    // Scope trees: the same or different names listed at two nesting levels; uses before, inside and after the
    // inner scope and after the outer one. A use is verbatim iff its name is listed by an enclosing scope there.
    let names = ["skipme", "other"];
    let subsets: [&[&str]; 4] = [&[], &["skipme"], &["other"], &["skipme", "other"]];
    for what in ["macros", "attributes"] {
        for mech in ["crate", "mod", "config"] {
            if what == "attributes" && mech == "config" {
                continue;
            }
            for outer in subsets {
                for inner in subsets {
                    if outer.is_empty() && inner.is_empty() {
                        continue;
                    }
                    if mech == "config" && outer.is_empty() {
                        continue;
                    }
                    for inner_kind in ["fn", "mod", "impl"] {
                        let use_of = |name: &str, pos: &str| -> String {
                            if what == "macros" {
                                format!("{name} ! (  {pos} ,\n        b  ,  c )")
                            } else {
                                format!("#[{name}(  {pos} ,\n    y  =  \"z\" )]")
                            }
                        };
                        // a function holding one use of each name (macros: two statements; attributes: two
                        // attributed nested functions)
                        let holder = |pos: &str| -> String {
                            if what == "macros" {
                                format!("fn {pos}() {{\n{};\n{};\n}}\n", use_of("skipme", pos), use_of("other", pos))
                            } else {
                                format!(
                                    "{}\nfn {pos}_a() {{}}\n{}\nfn {pos}_b() {{}}\n",
                                    use_of("skipme", pos),
                                    use_of("other", pos)
                                )
                            }
                        };
                        let attr = |list: &[&str], inner_attr: bool| -> String {
                            if list.is_empty() {
                                String::new()
                            } else {
                                format!("#{}[rustfmt::skip::{what}({})]\n", if inner_attr { "!" } else { "" }, list.join(", "))
                            }
                        };
                        let inner_item = match inner_kind {
                            "fn" if what == "macros" => format!("{}{}", attr(inner, false), holder("inner")),
                            "fn" => format!("{}fn wrap() {{\n{}}}\n", attr(inner, false), holder("inner")),
                            "mod" => format!("{}mod im {{\n{}}}\n", attr(inner, false), holder("inner")),
                            _ if what == "macros" => format!("{}impl T {{\n{}}}\n", attr(inner, false), holder("inner")),
                            _ => format!("{}impl T {{\n{}\nfn inner_a() {{}}\n{}\nfn inner_b() {{}}\n}}\n", attr(inner, false), use_of("skipme", "inner"), use_of("other", "inner")),
                        };
                        let body = format!("{}{}{}", holder("before"), inner_item, holder("after"));
                        let (prog, outer_everywhere) = match mech {
                            "crate" => (format!("{}mod m {{\n{body}}}\n{}", attr(outer, true), holder("outside")), true),
                            "mod" => (format!("{}mod m {{\n{body}}}\n{}", attr(outer, false), holder("outside")), false),
                            _ => (format!("mod m {{\n{body}}}\n{}", holder("outside")), true),
                        };
                        let mut verb = vec![];
                        let mut chg = vec![];
                        for pos in ["before", "inner", "after", "outside"] {
                            for name in names {
                                let listed = (outer.contains(&name) && (outer_everywhere || pos != "outside"))
                                    || (pos == "inner" && inner.contains(&name));
                                if listed {
                                    verb.push(use_of(name, pos));
                                } else {
                                    chg.push(use_of(name, pos));
                                }
                            }
                        }
                        let kv = if mech == "config" {
                            vec![(
                                "skip_macro_invocations".to_string(),
                                format!("[{}]", outer.iter().map(|n| format!("\"{n}\"")).collect::<Vec<_>>().join(",")),
                            )]
                        } else {
                            vec![]
                        };
                        v.push((
                            format!("scopes-{what}/{mech}[{}]/{inner_kind}[{}]", outer.join("+"), inner.join("+")),
                            prog,
                            verb,
                            chg,
                            kv,
                        ));
                    }
                }
            }
        }
    }
    v
}

fn mark(spelling: &str, class: &str, node: &str) -> String {
    match class {
        // attributes on expressions stand on the same line
        "expr" => format!("{spelling} {node}"),
        _ => format!("{spelling}\n{node}"),
    }
}

impl Prop for C04 {
    fn id(&self) -> &'static str {
        "C04"
    }
    fn rule(&self) -> String {
        "35 node kinds + 9 inner-attribute forms (every item kind, assoc / foreign items, let / expr / macro / item statements, fields, variants, match \
         arms, expressions in argument / element / initialiser position) x 5 skip spellings x every nesting context of the \
         node's class (25 contexts incl. closure in call in macro, impl in mod, depth 3) x every width x configuration \
         deviations; skip::macros at item / mod / crate / nested level, skip_macro_invocations [name] and [*] at three \
         depths, skip::attributes on items / fields / statements / crate. The marked node is deliberately mis-laid-out; an \
         unmarked sibling with the same layout must be re-laid out. Non-trivial = the sibling was reformatted; distinct = \
         distinct (input, config)."
            .into()
    }
    fn assumptions(&self) -> Vec<String> {
        vec![
            "the marked node (first to last token, without its attribute) must occur byte for byte exactly once in the output, and so must the attribute text".into(),
            "`#[cfg_attr(any(), rustfmt::skip)]` counts as a cfg_attr spelling (rustfmt does not evaluate the predicate)".into(),
        ]
    }
    fn units(&self, tier: Tier) -> Vec<Unit> {
        let thorough = tier == Tier::Thorough;
        let mut units = vec![];
        let cfgs: Vec<Cfg> = {
            let mut c = vec![Cfg::new(2024), Cfg::new(2015)];
            let extra = [
                ("hard_tabs", "true"),
                ("indent_style", "Visual"),
                ("brace_style", "AlwaysNextLine"),
                ("reorder_imports", "false"),
                ("imports_granularity", "Crate"),
                ("normalize_comments", "true"),
                ("error_on_unformatted", "true"),
                ("match_arm_blocks", "false"),
                ("trailing_comma", "Never"),
                ("struct_field_align_threshold", "20"),
                ("enum_discrim_align_threshold", "20"),
                ("reorder_impl_items", "true"),
                ("tab_spaces", "2"),
            ];
            for (k, v) in extra {
                c.push(Cfg::new(2024).with(k, v));
            }
            c
        };
        for nk in NODES {
            for cx in CTXS.iter().filter(|c| c.class == nk.class || (nk.class == "item" && c.class == "item")) {
                for (si, sp) in SPELLINGS.iter().enumerate() {
                    for (ci, cfg) in cfgs.iter().enumerate() {
                        // quick: deviated configs with the canonical spelling only
                        if !thorough && ci > 1 && si > 0 {
                            continue;
                        }
                        if !thorough && ci == 1 && si > 1 {
                            continue;
                        }
                        // foreign items ignore the skip attribute in this snapshot (known finding): explored
                        // under the default configurations only, so that the one root cause is listed a dozen
                        // times rather than once per configuration deviation
                        if nk.class == "foreign" && (ci > 1 || (ci == 1 && si > 0)) {
                            continue;
                        }
                        let marked_node = nk.text.replace("NAME", "skipped");
                        let sibling = nk.text.replace("NAME", "sibling");
                        let marked = mark(sp, nk.class, &marked_node);
                        let text = cx.text.replace("MARKED", &marked).replace("SIBLING", &sibling);
                        units.push(Unit {
                            key: format!("{}/{}/{}", nk.name, cx.name, sp),
                            text,
                            cfg: cfg.clone(),
                            // the node keeps its bytes; its attribute may be re-indented on a line of its own
                            extra: json!({"verbatim": [marked_node, sp], "must_change": [sibling], "sweep": ci <= 1}),
                        });
                    }
                }
            }
        }
        for nk in INNER_NODES {
            for cx in CTXS.iter().filter(|c| c.class == nk.class) {
                for (si, sp) in INNER_SPELLINGS.iter().enumerate() {
                    for (ci, cfg) in cfgs.iter().enumerate() {
                        if ci > 1 && (si > 0 || !thorough) {
                            continue;
                        }
                        let marked = nk.text.replace("NAME", "skipped").replace("INNER", sp);
                        let sibling = nk.text.replace("NAME", "sibling").replace("INNER", "");
                        let text = cx.text.replace("MARKED", &marked).replace("SIBLING", &sibling);
                        units.push(Unit {
                            key: format!("{}/{}/{}", nk.name, cx.name, sp.trim()),
                            text,
                            cfg: cfg.clone(),
                            extra: json!({"verbatim": [marked], "must_change": [sibling], "sweep": ci <= 1}),
                        });
                    }
                }
            }
        }
        for (name, prog, verb, chg, kv) in scoped_cases() {
            for se in [2015u16, 2024] {
                let mut cfg = Cfg::new(se);
                for (k, v) in &kv {
                    cfg = cfg.with(k, v);
                }
                units.push(Unit {
                    key: name.clone(),
                    text: prog.clone(),
                    cfg,
                    extra: json!({"verbatim": verb, "must_change": chg, "sweep": true}),
                });
            }
        }
        units
    }
    fn check(&self, u: &Unit, tier: Tier, sink: &mut Sink) {
        if !parse::parses(&u.text, u.cfg.edition) {
            sink.count("dropped_unparsable", 1);
            return;
        }
        let verbatim: Vec<String> = u.extra["verbatim"].as_array().unwrap().iter().map(|v| v.as_str().unwrap().to_string()).collect();
        let must_change: Vec<String> = u.extra["must_change"].as_array().unwrap().iter().map(|v| v.as_str().unwrap().to_string()).collect();
        let widths: Vec<usize> = if u.extra["sweep"].as_bool().unwrap_or(false) {
            widths_for(&u.cfg, tier)
        } else {
            widths_for(&u.cfg, tier).into_iter().filter(|w| [20, 30, 40, 60, 80, 100, 120, 200].contains(w)).collect()
        };
        let mut prev: Option<String> = None;
        let mut sampled = false;
        for w in widths {
            let o = fmt::format(&u.text, &u.cfg, w);
            if !o.ok() {
                sink.count("not_ok", 1);
                continue;
            }
            if prev.as_deref() == Some(o.text.as_str()) {
                continue;
            }
            for v in &verbatim {
                let n = o.text.matches(v.as_str()).count();
                if n != 1 {
                    sink.violation(
                        "C04",
                        u,
                        w,
                        if n == 0 { "skipped code not emitted verbatim" } else { "skipped code duplicated" },
                        format!("expected verbatim:\n{v}\n--- output ---\n{}", o.text),
                    );
                }
            }
            let mut changed = must_change.is_empty();
            for m in &must_change {
                if !o.text.contains(m.as_str()) {
                    changed = true;
                }
            }
            if changed {
                sink.distinct.insert(hash64(&format!("{}\u{0}{}", u.text, u.cfg.label())));
            } else {
                sink.count("sibling_survived", 1);
            }
            if !sampled {
                sampled = true;
                sink.sample(json!({"unit": u.key, "input": u.text, "config": u.cfg.label(), "width": w, "output": o.text}));
            }
            prev = Some(o.text);
        }
    }
}
