//! C12 — diff-based reports reconstruct the formatted text exactly.
//!
//! Completely enumerated: all pairs (orig, new) of line sequences of length
//! <= N over {"a","b",""} x final newline present/absent on each side x
//! context size 0..3 (N = 4 quick, 5 thorough). Second finite corpus: every
//! (tests/source, tests/target) fixture pair of the repository and lines with
//! XML / JSON specials. Oracles via hook H3 (make_diff, ModifiedLines,
//! emit_pair).

use rustfmt_nightly::verif_hooks::{self, HookDiffLine, HookMismatch};
use rustfmt_nightly::{EmitMode, ModifiedLines};
use serde_json::{json, Value};

use crate::explore::{hash64, Prop, Sink, Tier, Unit};
use crate::fmt::Cfg;

pub struct C12;

const ALPHA: [&str; 3] = ["a", "b", ""];

fn seqs(max_len: usize) -> Vec<Vec<&'static str>> {
    let mut out: Vec<Vec<&'static str>> = vec![vec![]];
    let mut frontier: Vec<Vec<&'static str>> = vec![vec![]];
    for _ in 0..max_len {
        let mut next = vec![];
        for s in &frontier {
            for a in ALPHA {
                let mut t = s.clone();
                t.push(a);
                next.push(t);
            }
        }
        out.extend(next.iter().cloned());
        frontier = next;
    }
    out
}

fn text_of(lines: &[&str], final_nl: bool) -> String {
    let mut s = lines.join("\n");
    if final_nl && !lines.is_empty() {
        s.push('\n');
    }
    s
}

/// Reference notion of "the lines of a text" (what every report is defined over).
/// This is the notion of the `diff` crate the reports are built on: the
/// pieces between line terminators, so a text ending in a terminator has a
/// last, empty line (a missing final newline is visible; CRLF vs LF is not).
fn lines_of(t: &str) -> Vec<String> {
    let mut v: Vec<String> = t.lines().map(|l| l.to_string()).collect();
    if t.ends_with('\n') {
        v.push(String::new());
    }
    v
}

pub fn check_pair(orig: &str, new: &str, max_ctx: usize, emitters: bool) -> Result<(), (String, String)> {
    let ol = lines_of(orig);
    let nl = lines_of(new);
    let fail = |what: &str, detail: String| Err((what.to_string(), detail));
    for ctx in 0..=max_ctx {
        let d: Vec<HookMismatch> = verif_hooks::make_diff(orig, new, ctx);
        // empty <=> same lines
        if d.is_empty() != (ol == nl) {
            return fail("diff emptiness", format!("ctx={ctx} empty={} same_lines={}", d.is_empty(), ol == nl));
        }
        // hunk consistency
        let mut prev_end_o = 0usize;
        let mut prev_end_n = 0usize;
        let mut recon: Vec<String> = vec![];
        let mut cursor_o = 0usize; // 0-based index into ol consumed so far
        for (hi, m) in d.iter().enumerate() {
            let mut o = m.line_number_orig as usize; // 1-based
            let mut n = m.line_number as usize;
            if o == 0 || n == 0 {
                return fail("hunk line number zero", format!("ctx={ctx} hunk={hi} {m:?}"));
            }
            if o - 1 < prev_end_o || n - 1 < prev_end_n {
                return fail("hunks overlap or unordered", format!("ctx={ctx} hunk={hi} {m:?}"));
            }
            // copy untouched lines before the hunk
            while cursor_o < o - 1 {
                if cursor_o >= ol.len() {
                    return fail("hunk starts past end", format!("ctx={ctx} hunk={hi} {m:?}"));
                }
                recon.push(ol[cursor_o].clone());
                cursor_o += 1;
            }
            if recon.len() != n - 1 {
                return fail(
                    "hunk new-side line number inconsistent",
                    format!("ctx={ctx} hunk={hi} expected new line {} got {} {m:?}", recon.len() + 1, n),
                );
            }
            let mut has_change = false;
            let mut leading_ctx = 0usize;
            let mut trailing_ctx = 0usize;
            for l in &m.lines {
                match l {
                    HookDiffLine::Context(s) => {
                        if ol.get(o - 1) != Some(s) || nl.get(n - 1) != Some(s) {
                            return fail("context line mismatch", format!("ctx={ctx} hunk={hi} at orig {o} new {n}: {m:?}"));
                        }
                        recon.push(s.clone());
                        o += 1;
                        n += 1;
                        if has_change {
                            trailing_ctx += 1;
                        } else {
                            leading_ctx += 1;
                        }
                    }
                    HookDiffLine::Resulting(s) => {
                        if ol.get(o - 1) != Some(s) {
                            return fail("removed line mismatch", format!("ctx={ctx} hunk={hi} at orig {o}: {m:?}"));
                        }
                        o += 1;
                        has_change = true;
                        trailing_ctx = 0;
                    }
                    HookDiffLine::Expected(s) => {
                        if nl.get(n - 1) != Some(s) {
                            return fail("added line mismatch", format!("ctx={ctx} hunk={hi} at new {n}: {m:?}"));
                        }
                        recon.push(s.clone());
                        n += 1;
                        has_change = true;
                        trailing_ctx = 0;
                    }
                }
            }
            if !has_change {
                return fail("hunk without a change", format!("ctx={ctx} hunk={hi} {m:?}"));
            }
            if leading_ctx > ctx || trailing_ctx > ctx {
                return fail("too much context", format!("ctx={ctx} hunk={hi} {m:?}"));
            }
            cursor_o = o - 1;
            prev_end_o = o - 1;
            prev_end_n = n - 1;
        }
        while cursor_o < ol.len() {
            recon.push(ol[cursor_o].clone());
            cursor_o += 1;
        }
        if recon != nl {
            return fail("hunks do not reconstruct the new text", format!("ctx={ctx} recon={recon:?} new={nl:?} diff={d:?}"));
        }
    }

    // modified lines: apply, print, re-parse
    let ml: ModifiedLines = verif_hooks::modified_lines(orig, new);
    {
        let mut out: Vec<String> = vec![];
        let mut cur = 0usize;
        for c in &ml.chunks {
            let start = c.line_number_orig as usize;
            if start == 0 || start - 1 < cur || start - 1 > ol.len() {
                return fail("modified-lines chunk position", format!("{ml:?}"));
            }
            out.extend(ol[cur..start - 1].iter().cloned());
            cur = start - 1 + c.lines_removed as usize;
            if cur > ol.len() {
                return fail("modified-lines removes past end", format!("{ml:?}"));
            }
            out.extend(c.lines.iter().cloned());
        }
        out.extend(ol[cur..].iter().cloned());
        if out != nl {
            return fail("modified-lines does not reconstruct", format!("applied={out:?} new={nl:?} {ml:?}"));
        }
        if ml.chunks.is_empty() != (ol == nl) {
            return fail("modified-lines emptiness", format!("{ml:?}"));
        }
        let printed = ml.to_string();
        match printed.parse::<ModifiedLines>() {
            Ok(back) if back == ml => {}
            other => return fail("modified-lines print/parse round trip", format!("printed={printed:?} back={other:?}")),
        }
    }
    if !emitters {
        return Ok(());
    }
    // emitters: modified lines text, json, checkstyle
    match verif_hooks::emit_pair(EmitMode::ModifiedLines, "f.rs", orig, new) {
        Ok((bytes, has_diff)) => {
            if String::from_utf8_lossy(&bytes) != ml.to_string() {
                return fail("modified-lines emitter differs from report", format!("{:?}", String::from_utf8_lossy(&bytes)));
            }
            if has_diff != (ol != nl) {
                return fail("modified-lines emitter has_diff", format!("has_diff={has_diff}"));
            }
        }
        Err(e) => return fail("emit_pair failed", e),
    }
    match verif_hooks::emit_pair(EmitMode::Json, "f.rs", orig, new) {
        Ok((bytes, has_diff)) => {
            let v: Value = match serde_json::from_slice(&bytes) {
                Ok(v) => v,
                Err(e) => return fail("json not well-formed", format!("{e}: {:?}", String::from_utf8_lossy(&bytes))),
            };
            if has_diff != (ol != nl) {
                return fail("json emitter has_diff", format!("has_diff={has_diff}"));
            }
            let files = v.as_array().cloned().unwrap_or_default();
            if files.is_empty() != (ol == nl) {
                return fail("json emptiness", v.to_string());
            }
            for f in files {
                if f["name"] != "f.rs" {
                    return fail("json file name", v.to_string());
                }
                let blocks = f["mismatches"].as_array().cloned().unwrap_or_default();
                if blocks.len() != ml.chunks.len() {
                    return fail("json block count differs from chunks", v.to_string());
                }
                for (b, c) in blocks.iter().zip(&ml.chunks) {
                    let ob = b["original_begin_line"].as_u64().unwrap_or(0) as usize;
                    let oe = b["original_end_line"].as_u64().unwrap_or(0) as usize;
                    let eb = b["expected_begin_line"].as_u64().unwrap_or(0) as usize;
                    let ee = b["expected_end_line"].as_u64().unwrap_or(0) as usize;
                    let otext = b["original"].as_str().unwrap_or("");
                    let etext = b["expected"].as_str().unwrap_or("");
                    let nrem = c.lines_removed as usize;
                    if ob != c.line_number_orig as usize {
                        return fail("json original_begin_line differs from chunk", v.to_string());
                    }
                    let want_o: String = ol[ob - 1..ob - 1 + nrem].iter().map(|l| format!("{l}\n")).collect();
                    if otext != want_o {
                        return fail("json original text", format!("{v} want {want_o:?}"));
                    }
                    if nrem > 0 && oe != ob + nrem - 1 {
                        return fail("json original_end_line", v.to_string());
                    }
                    let nadd = c.lines.len();
                    if eb == 0 || eb - 1 + nadd > nl.len() {
                        return fail("json expected_begin_line out of range", v.to_string());
                    }
                    let want_e: String = nl[eb - 1..eb - 1 + nadd].iter().map(|l| format!("{l}\n")).collect();
                    if etext != want_e || c.lines != nl[eb - 1..eb - 1 + nadd] {
                        return fail("json expected text", format!("{v} want {want_e:?}"));
                    }
                    if nadd > 0 && ee != eb + nadd - 1 {
                        return fail("json expected_end_line", v.to_string());
                    }
                }
            }
        }
        Err(e) => return fail("emit_pair failed", e),
    }
    match verif_hooks::emit_pair(EmitMode::Checkstyle, "f.rs", orig, new) {
        Ok((bytes, _)) => {
            let s = String::from_utf8_lossy(&bytes).to_string();
            let errs = match parse_checkstyle(&s) {
                Ok(e) => e,
                Err(e) => return fail("checkstyle not well-formed", format!("{e}: {s:?}")),
            };
            // every error names a line of the new text with its content, and
            // together they are exactly the added lines of the chunks
            let mut want: Vec<(usize, String)> = vec![];
            let mut shift: isize = 0;
            for c in &ml.chunks {
                let start_new = (c.line_number_orig as isize + shift) as usize;
                for (i, l) in c.lines.iter().enumerate() {
                    want.push((start_new + i, l.clone()));
                }
                shift += c.lines.len() as isize - c.lines_removed as isize;
            }
            for (line, msg) in &errs {
                if nl.get(line.wrapping_sub(1)) != Some(msg) {
                    return fail("checkstyle line number / text", format!("line={line} msg={msg:?} new={nl:?}"));
                }
            }
            if errs != want {
                return fail("checkstyle errors differ from chunks", format!("errs={errs:?} want={want:?}"));
            }
        }
        Err(e) => return fail("emit_pair failed", e),
    }
    Ok(())
}

/// Minimal strict parser for the checkstyle document rustfmt emits:
/// returns (line, unescaped message body) per <error>. Rejects raw specials
/// inside attribute values and characters XML 1.0 forbids.
pub fn parse_checkstyle(s: &str) -> Result<Vec<(usize, String)>, String> {
    let s = s
        .strip_prefix("<?xml version=\"1.0\" encoding=\"utf-8\"?>\n<checkstyle version=\"4.3\">")
        .ok_or("bad prolog")?;
    let s = s.strip_suffix("</checkstyle>\n").ok_or("bad epilog")?;
    let s = s.strip_prefix("<file name=\"f.rs\">").ok_or("bad file element")?;
    let mut s = s.strip_suffix("</file>").ok_or("bad file close")?;
    let mut out = vec![];
    while !s.is_empty() {
        s = s.strip_prefix("<error line=\"").ok_or("expected <error")?;
        let q = s.find('"').ok_or("unterminated line attr")?;
        let line: usize = s[..q].parse().map_err(|_| "bad line number")?;
        s = s[q..]
            .strip_prefix("\" severity=\"warning\" message=\"")
            .ok_or("bad attrs")?;
        let q = s.find('"').ok_or("unterminated message")?;
        let raw = &s[..q];
        s = s[q..].strip_prefix("\" />").ok_or("bad error close")?;
        // unescape
        let mut msg = String::new();
        let mut it = raw.chars().peekable();
        while let Some(c) = it.next() {
            match c {
                '<' => return Err("raw < in attribute".into()),
                '&' => {
                    let mut ent = String::new();
                    for d in it.by_ref() {
                        if d == ';' {
                            break;
                        }
                        ent.push(d);
                    }
                    msg.push(match ent.as_str() {
                        "lt" => '<',
                        "gt" => '>',
                        "amp" => '&',
                        "quot" => '"',
                        "apos" => '\'',
                        _ => return Err(format!("unknown entity &{ent};")),
                    });
                }
                c if (c as u32) < 0x20 && c != '\t' && c != '\n' && c != '\r' => {
                    return Err(format!("character U+{:04X} is not allowed in XML 1.0", c as u32))
                }
                c => msg.push(c),
            }
        }
        let body = msg
            .strip_prefix("Should be `")
            .and_then(|m| m.strip_suffix('`'))
            .ok_or("bad message shape")?;
        out.push((line, body.to_string()));
    }
    Ok(out)
}

fn fixture_pairs() -> Vec<(String, String, String)> {
    let mut out = vec![];
    let src_dir = "/repo/tests/source";
    let mut stack = vec![std::path::PathBuf::from(src_dir)];
    while let Some(d) = stack.pop() {
        let Ok(rd) = std::fs::read_dir(&d) else { continue };
        let mut ents: Vec<_> = rd.filter_map(|e| e.ok()).map(|e| e.path()).collect();
        ents.sort();
        for p in ents {
            if p.is_dir() {
                stack.push(p);
            } else if p.extension().map_or(false, |e| e == "rs") {
                let rel = p.strip_prefix(src_dir).unwrap().to_path_buf();
                let tgt = std::path::Path::new("/repo/tests/target").join(&rel);
                if let (Ok(a), Ok(b)) = (std::fs::read_to_string(&p), std::fs::read_to_string(&tgt)) {
                    out.push((rel.display().to_string(), a, b));
                }
            }
        }
    }
    out.sort();
    out
}

const SPECIAL_LINES: &[&str] = &[
    "let s = \"<a & b> 'q' \\\"z\\\"\";",
    "// </checkstyle> ]]> &amp; &#10; <!-- -->",
    "let t = '\\\\'; /* \\u{1F980} 🦀 \u{10FFFF} */",
    "let bs = \"back\\\\slash \\n \\t\";",
    "\tlet tab = 1;",
    "let ctl = \"\u{0c}\u{0b}\u{7f}\";",
    "let nul = \"a\u{1}b\u{1b}[0m\";",
    "`backtick` and ``double``",
];

impl Prop for C12 {
    fn id(&self) -> &'static str {
        "C12"
    }
    fn rule(&self) -> String {
        "ALL pairs (orig,new) of line sequences of length <= 4 (quick) / 5 (thorough) over {\"a\",\"b\",\"\"} x final newline \
         on/off on each side x context 0..3; second finite corpus: every (tests/source, tests/target) fixture pair of the \
         repository (both directions) and pairs built from lines with XML/JSON specials and control characters. A pair is \
         non-trivial when the two texts differ in at least one line; distinct = distinct (orig,new) texts."
            .into()
    }
    fn assumptions(&self) -> Vec<String> {
        vec![
            "hook H3 (verif_hooks::make_diff / modified_lines / emit_pair) returns what the emitters use".into(),
            "'lines of a text' = the pieces between line terminators (str::lines() plus a last empty line when the text ends in a terminator): CRLF vs LF is invisible to reports, a missing final newline is visible".into(),
        ]
    }
    fn exhaustive(&self, _t: Tier) -> bool {
        true
    }
    fn units(&self, tier: Tier) -> Vec<Unit> {
        let n = if tier == Tier::Thorough { 5 } else { 4 };
        let ss = seqs(n);
        let mut units = vec![];
        // one unit per original sequence (x final newline); the unit enumerates all `new`
        for (i, s) in ss.iter().enumerate() {
            for fin in [true, false] {
                if s.is_empty() && fin {
                    continue;
                }
                units.push(Unit {
                    key: format!("seq{i}/{}", if fin { "nl" } else { "nonl" }),
                    text: text_of(s, fin),
                    cfg: Cfg::new(2015),
                    extra: json!({"kind": "exhaustive", "n": n}),
                });
            }
        }
        for (name, a, b) in fixture_pairs() {
            units.push(Unit {
                key: format!("fixture/{name}"),
                text: a,
                cfg: Cfg::new(2015),
                extra: json!({"kind": "fixture", "other": b}),
            });
        }
        units.push(Unit {
            key: "specials".into(),
            text: String::new(),
            cfg: Cfg::new(2015),
            extra: json!({"kind": "specials"}),
        });
        units
    }
    fn check(&self, u: &Unit, _tier: Tier, sink: &mut Sink) {
        let mut run = |orig: &str, new: &str, sink: &mut Sink, emit: bool| {
            sink.count("evaluations", 1);
            if lines_of(orig) != lines_of(new) {
                sink.distinct.insert(hash64(&format!("{orig}\u{0}{new}")));
            }
            if let Err((what, detail)) = check_pair(orig, new, 3, emit) {
                let mut vu = u.clone();
                vu.text = format!("{orig}\u{1}{new}");
                sink.violation("C12", &vu, 0, &what, detail);
            }
        };
        match u.extra["kind"].as_str() {
            Some("exhaustive") => {
                let n = u.extra["n"].as_u64().unwrap() as usize;
                for s in seqs(n) {
                    for fin in [true, false] {
                        if s.is_empty() && fin {
                            continue;
                        }
                        let new = text_of(&s, fin);
                        run(&u.text, &new, sink, true);
                    }
                }
                sink.sample(json!({"orig": u.text, "new": "every sequence of the universe, with and without final newline", "contexts": [0,1,2,3]}));
            }
            Some("fixture") => {
                let other = u.extra["other"].as_str().unwrap();
                run(&u.text, other, sink, true);
                run(other, &u.text, sink, true);
                sink.count("fixture_pairs", 2);
            }
            Some("specials") => {
                for a in SPECIAL_LINES {
                    for b in SPECIAL_LINES {
                        let orig = format!("fn f() {{\n{a}\n}}\n");
                        let new = format!("fn f() {{\n    {b}\n{a}\n}}\n");
                        run(&orig, &new, sink, true);
                        sink.count("special_pairs", 1);
                    }
                }
            }
            _ => {}
        }
    }
}
