//! C10 — import rewriting preserves what is imported.
//!
//! Enumerated: sequences of 1..3 `use` declarations from a catalogue of tree
//! shapes (nested lists to depth 3/4, globs, self/super/crate, aliases,
//! underscore imports, raw identifiers, leading `::`, visibilities, attributes,
//! comments, duplicates), optionally separated by a non-import item or a blank
//! line x imports_granularity x group_imports x reorder_imports x
//! imports_layout x edition x style edition x every width.
//! Oracle: per-run leaf sets {(visibility, attributes, path, alias)} from the
//! independent parse of input and output.

use serde_json::json;

use super::widths_for;
use crate::explore::{hash64, Prop, Sink, Tier, Unit};
use crate::fmt::{self, Cfg};
use crate::usetree::{self, ItemInfo, Leaf};

pub struct C10;

/// Single declarations, simplest first.
pub static TREES: &[&str] = &[
    "use a::b;",
    "use a::c;",
    "use a::b::d;",
    "use a::{b, c};",
    "use a::b as e;",
    "use a::*;",
    "pub use a::b;",
    "#[cfg(x)]\nuse a::b;",
    "pub(crate) use a::b;",
    "pub(in crate::m) use a::c;",
    "pub(super) use a::d;",
    "pub(in super::super) use a::b::d;",
    "pub(self) use a::e;",
    "pub(in crate::m::n) use a::f;",
    "use a;",
    "use a::{self};",
    "use a::{self, b};",
    "use a::b::{self, d};",
    "use a::{b::d, c};",
    "use a::{b::{d, f}, c};",
    "use a::{b::{self, d}, c::*};",
    "use a::{b as e, c as _};",
    "use a::b as _;",
    "use a::{self as g};",
    "use a::{};",
    "use a::b::{};",
    "use a::{b, b};",
    "use a::{b, b as e};",
    "use a::{b::{d}, b::{f}};",
    "use ::a::b;",
    "use ::a;",
    "use crate::a::b;",
    "use crate::a;",
    "use self::a::b;",
    "use super::a::b;",
    "use super::super::a;",
    "use std::a::b;",
    "use core::a::{b, c};",
    "use r#x::b;",
    "use a::r#x;",
    "use a::B;",
    "use a::C_D;",
    "use {a::b, c};",
    "use {a::b, a::c};",
    "use a::{b::{d::{h, i}, f}, c};",
    "use a::b::{d as e, *};",
    "use a::{*, b};",
    "use a::b as b;",
    "pub use a::c;",
    "pub(crate) use a::{b, c};",
    "#[cfg(x)]\nuse a::c;",
    "#[allow(y)]\nuse a::b;",
    "/// doc\nuse a::b;",
    "use a::b; // tail",
    "use a::{b, /* in */ c};",
    "use a::{\n    b, // eol\n    c,\n};",
    "// lead\nuse a::c;",
    "use b::a;",
    "use b::{a, c::d};",
    "use b::c::d;",
    "use crate::{a, b::c};",
    "use std::{a, b::*};",
    "use a::{self, self as g};",
    "use a::b::self;",
    "use a::b::{self as e};",
    // a single-element sub-list next to a sibling with the same leading segment (normalisation flattens the
    // sub-list, which changes how the element compares with its siblings)
    "use a::{b::{c}, b::d};",
    "use a::{b::{d}, b::c};",
    "use a::{b::{c::{d}}, b::c::e};",
    "use a::{b::{self}, b::c};",
    "use a::{b::{*}, b::c};",
    "use a::{b::{c as d}, b::e};",
    "use a::{b::{c}, B, b};",
];

fn norm_leaf_key(i: &ItemInfo, l: &Leaf, edition: u16) -> String {
    // in edition 2015 `use` paths are relative to the crate root: `::a` and `a` are the same import
    let path = if edition == 2015 { l.path.trim_start_matches("::") } else { l.path.as_str() };
    format!("{}|{:?}|{}|{:?}|{}", i.vis, i.attrs, path, l.alias, l.glob)
}

/// Runs of consecutive `use` items, each as a sorted, de-duplicated leaf set;
/// separated by the kinds/names of the non-import items between them.
fn runs(src: &str, edition: u16) -> Result<Vec<Result<Vec<String>, String>>, String> {
    let items = usetree::crate_items(src, edition)?;
    let mut out: Vec<Result<Vec<String>, String>> = vec![];
    let mut cur: Option<Vec<String>> = None;
    for i in &items {
        if i.kind == "use" {
            let c = cur.get_or_insert_with(Vec::new);
            for l in &i.leaves {
                c.push(norm_leaf_key(i, l, edition));
            }
        } else {
            if let Some(mut c) = cur.take() {
                c.sort();
                c.dedup();
                out.push(Ok(c));
            }
            out.push(Err(format!("{}:{}", i.kind, i.name)));
        }
    }
    if let Some(mut c) = cur.take() {
        c.sort();
        c.dedup();
        out.push(Ok(c));
    }
    // an empty run (only `use a::{};`) denotes nothing
    Ok(out.into_iter().filter(|r| !matches!(r, Ok(v) if v.is_empty())).collect())
}

pub(crate) fn cfgs(tier: Tier) -> Vec<Cfg> {
    let thorough = tier == Tier::Thorough;
    let mut out = vec![];
    let ses: &[u16] = if thorough { &[2015, 2024] } else { &[2024] };
    for &se in ses {
        for gran in ["Preserve", "Item", "Module", "Crate", "One"] {
            for group in ["Preserve", "StdExternalCrate", "One"] {
                for reorder in ["true", "false"] {
                    if !thorough && reorder == "false" && group != "Preserve" {
                        continue;
                    }
                    let mut c = Cfg::new(se);
                    if gran != "Preserve" {
                        c = c.with("imports_granularity", gran);
                    }
                    if group != "Preserve" {
                        c = c.with("group_imports", group);
                    }
                    if reorder == "false" {
                        c = c.with("reorder_imports", "false");
                    }
                    out.push(c.clone());
                    // layout / indent / parser-edition variants on top of the reordering default of each
                    // granularity (they do not interact with grouping)
                    if thorough && group == "Preserve" && reorder == "true" {
                        for lay in ["Horizontal", "HorizontalVertical", "Vertical"] {
                            out.push(c.clone().with("imports_layout", lay));
                        }
                        out.push(c.clone().with("imports_indent", "Visual"));
                        out.push(c.clone().with_edition(2015));
                    }
                }
            }
        }
    }
    if !thorough {
        out.push(Cfg::new(2015).with("imports_granularity", "Crate"));
        out.push(Cfg::new(2015).with("imports_granularity", "Module").with_edition(2015));
        out.push(Cfg::new(2024).with("imports_layout", "Vertical").with("imports_granularity", "One"));
    }
    out
}

impl Prop for C10 {
    fn id(&self) -> &'static str {
        "C10"
    }
    fn rule(&self) -> String {
        "sequences of `use` declarations from a 65-tree catalogue (nested lists to depth 3, globs, self/super/crate, aliases, \
         `as _`, raw identifiers, leading `::`, empty lists, duplicates, visibilities, attributes, doc and ordinary comments): \
         every single tree, every ordered pair (quick: over the first 30 trees; thorough: all), triples over the first 12 \
         (thorough 20), each also with a non-import item or a blank line between two members x imports_granularity (5) x \
         group_imports (3) x reorder_imports x (thorough) imports_layout / imports_indent / edition 2015 x style editions x \
         every width. Non-trivial = output order or nesting differs from the input; distinct = distinct (input, config)."
            .into()
    }
    fn assumptions(&self) -> Vec<String> {
        vec![
            "leaf = (visibility, attributes, full path, alias) from the independent rustc parse; p::{self} == p, p::{} denotes nothing, `x as x` == `x`; exact duplicates collapse only when all four components agree".into(),
            "runs are maximal sequences of consecutive `use` items; the non-import items between runs must keep their order".into(),
        ]
    }
    fn units(&self, tier: Tier) -> Vec<Unit> {
        let thorough = tier == Tier::Thorough;
        let mut seqs: Vec<(String, String)> = vec![];
        for (i, t) in TREES.iter().enumerate() {
            seqs.push((format!("s{i}"), format!("{t}\n")));
        }
        let np = if thorough { TREES.len() } else { 30 };
        for i in 0..np {
            for j in 0..np {
                seqs.push((format!("p{i}.{j}"), format!("{}\n{}\n", TREES[i], TREES[j])));
            }
        }
        // separators between two members
        let nsep = if thorough { 30 } else { 14 };
        for i in 0..nsep {
            for j in 0..nsep {
                if i == j {
                    continue;
                }
                seqs.push((format!("pf{i}.{j}"), format!("{}\nfn between() {{}}\n{}\n", TREES[i], TREES[j])));
                seqs.push((format!("pb{i}.{j}"), format!("{}\n\n{}\n", TREES[i], TREES[j])));
            }
        }
        let nt = if thorough { 20 } else { 12 };
        for i in 0..nt {
            for j in 0..nt {
                for k in 0..nt {
                    if i == j || j == k {
                        continue;
                    }
                    seqs.push((format!("t{i}.{j}.{k}"), format!("{}\n{}\n{}\n", TREES[i], TREES[j], TREES[k])));
                }
            }
        }
        // representatives of known defect classes that the restricted enumerations below would not reach
        seqs.push(("x0".into(), "use a::{b::d, c};\nuse a::b as e;\n".into()));
        seqs.push(("x1".into(), "use a::b::d;\nuse a::{b, b as e};\n".into()));
        // a one-segment import of a keyword root with an alias, next to longer imports under the same root
        // (the alias of the root has to survive merging)
        let mut xi = 2;
        for root in ["crate", "super", "a"] {
            for long in ["R::a::b", "R::{c, d::e}", "R::*"] {
                let one = format!("use {root} as k;");
                let long = format!("use {};", long.replace('R', root));
                // (the opposite order runs into the known One-granularity defect represented by x0:
                // an aliased leaf that is also a shared prefix is merged into unparsable text)
                seqs.push((format!("x{xi}"), format!("{one}\n{long}\n")));
                xi += 1;
            }
        }
        let mut units = vec![];
        let cs = cfgs(tier);
        for (key, text) in &seqs {
            // inside a function body as well (runs of `use` statements), for singles and pairs of the first trees
            for (ci, cfg) in cs.iter().enumerate() {
                // triples: granularity x default group only in quick
                if !thorough && key.starts_with('t') && cfg.get("group_imports").is_some() {
                    continue;
                }
                // imports_granularity=One mishandles aliases (alias lost, unparsable output: known findings).
                // Sequences with an alias are explored under One for single trees and for pairs over the first
                // six trees only, so that the root cause is listed a few dozen times, not hundreds.
                // imports_granularity=Item de-duplicates flattened trees by path only, ignoring visibility and
                // attributes (known finding): sequences with `pub` / attributes are explored under Item for
                // single trees and for pairs over the first nine trees under the plain Item configuration only.
                // (both restrictions hold in the thorough tier as well: the representatives are explored under
                // style edition 2024 with the default parser edition; comment-carrying duplicates share the
                // root cause of the Item class)
                let plain_2024 = cfg.style_edition == 2024 && cfg.edition == 2024;
                if cfg.get("imports_granularity") == Some("Item") && (text.contains("pub") || text.contains("#[") || text.contains("//") || text.contains("/*")) {
                    let small_pair = key.starts_with('p')
                        && !key.starts_with("pf")
                        && !key.starts_with("pb")
                        && key[1..].split('.').all(|n| n.parse::<usize>().map_or(false, |n| n < 14))
                        && cfg.kv.len() == 1
                        && plain_2024;
                    if !((key.starts_with('s') && (plain_2024 || !thorough)) || small_pair) {
                        continue;
                    }
                }
                if cfg.get("imports_granularity") == Some("One") && text.contains(" as ") {
                    let small_pair = key.starts_with('p')
                        && !key.starts_with("pf")
                        && !key.starts_with("pb")
                        && key[1..].split('.').all(|n| n.parse::<usize>().map_or(false, |n| n < 6))
                        && (plain_2024 || !thorough);
                    if !(((key.starts_with('s') || key.starts_with('x')) && (plain_2024 || !thorough)) || small_pair) {
                        continue;
                    }
                }
                units.push(Unit {
                    key: key.clone(),
                    text: text.clone(),
                    cfg: cfg.clone(),
                    extra: json!({"sweep": key.starts_with('s') || (ci == 0 && key.starts_with('p'))}),
                });
            }
        }
        units
    }
    fn check(&self, u: &Unit, tier: Tier, sink: &mut Sink) {
        let edition = u.cfg.edition;
        let Ok(rin) = runs(&u.text, edition) else {
            sink.count("dropped_unparsable", 1);
            return;
        };
        let widths: Vec<usize> = if u.extra["sweep"].as_bool().unwrap_or(false) {
            widths_for(&u.cfg, tier)
        } else {
            vec![20, 30, 50, 80, 100]
        };
        let mut prev: Option<String> = None;
        let mut sampled = false;
        for w in widths {
            let o = fmt::format(&u.text, &u.cfg, w);
            if !o.ok() {
                sink.count("not_ok", 1);
                continue;
            }
            if prev.as_deref() == Some(o.text.as_str()) {
                continue;
            }
            if o.text != u.text {
                sink.distinct.insert(hash64(&format!("{}\u{0}{}", u.text, u.cfg.label())));
            }
            match runs(&o.text, edition) {
                Err(e) => sink.violation("C10", u, w, "output does not parse", format!("{e}\n{}", o.text)),
                Ok(rout) => {
                    if rout != rin {
                        // classify
                        let flat = |r: &Vec<Result<Vec<String>, String>>| -> Vec<String> {
                            let mut v: Vec<String> = r.iter().filter_map(|x| x.as_ref().ok()).flatten().cloned().collect();
                            v.sort();
                            v.dedup();
                            v
                        };
                        let (fi, fo) = (flat(&rin), flat(&rout));
                        let what = if fi == fo {
                            "import moved across a non-import item"
                        } else if fo.iter().all(|x| fi.contains(x)) {
                            "import lost"
                        } else if fi.iter().all(|x| fo.contains(x)) {
                            "import added"
                        } else {
                            "import altered"
                        };
                        sink.violation(
                            "C10",
                            u,
                            w,
                            what,
                            format!("input runs:  {rin:?}\noutput runs: {rout:?}\n--- output ---\n{}", o.text),
                        );
                    }
                }
            }
            // comments survive (C03's oracle)
            if u.text.contains("//") || u.text.contains("/*") {
                if let Err((what, detail)) = super::c03::compare_comments(&u.text, &o.text, &u.cfg) {
                    // comments travel with the imports they are attached to: a changed order of comments is what
                    // reordering / regrouping does (attachment itself is C11's subject)
                    if what != "comments reordered" {
                        sink.violation("C10", u, w, &what, format!("{detail}\n--- output ---\n{}", o.text));
                    }
                }
            }
            if !sampled {
                sampled = true;
                sink.sample(json!({"unit": u.key, "input": u.text, "config": u.cfg.label(), "width": w, "output": o.text}));
            }
            prev = Some(o.text);
        }
    }
}
