//! C03 — comments are never silently dropped.
//!
//! Enumerated: program x every claimed comment position (between / before /
//! after items, statements, fields, variants, arms, parameters, arguments; end
//! of such a line; every token gap inside fn-body statements) x comment style
//! x layout around the comment x comment-relevant configurations x widths.
//! Oracle: non-doc comment tokens of input and output from rustc_lexer.

use serde_json::json;

use super::c02::{positions_kinded, PosKind};
use super::{corpus_units, widths_for, CfgMode, Space};
use crate::explore::{hash64, Prop, Sink, Tier, Unit};
use crate::fmt::{self, Cfg};
use crate::gen::{self, CStyle, Layout};
use crate::lex;
use crate::parse;

pub struct C03;

fn comment_cfgs(tier: Tier, se: u16) -> Vec<Cfg> {
    let b = Cfg::new(se);
    let mut v = vec![
        b.clone().with("normalize_comments", "true"),
        b.clone().with("wrap_comments", "true").with("comment_width", "20"),
        b.clone().with("wrap_comments", "true").with("normalize_comments", "true").with("comment_width", "40"),
        b.clone().with("indent_style", "Visual"),
        b.clone().with("brace_style", "AlwaysNextLine").with("control_brace_style", "AlwaysNextLine"),
        b.clone().with("trailing_comma", "Never"),
        b.clone().with("trailing_comma", "Always").with("match_block_trailing_comma", "true"),
        b.clone().with("fn_params_layout", "Vertical"),
        b.clone().with("struct_lit_single_line", "false"),
        b.clone().with("error_on_unformatted", "true"),
        // vertical alignment splits field / variant lists into groups at blank lines, with positions of its own
        b.clone().with("struct_field_align_threshold", "20").with("enum_discrim_align_threshold", "20"),
    ];
    if tier == Tier::Thorough {
        v.push(b.clone().with("fn_params_layout", "Compressed"));
        v.push(b.clone().with("wrap_comments", "true").with("comment_width", "80"));
        v.push(b.clone().with("match_arm_blocks", "false"));
        v.push(b.clone().with("hard_tabs", "true"));
        v.push(b.clone().with("imports_granularity", "Crate"));
        v.push(b.clone().with("group_imports", "StdExternalCrate"));
        v.push(b.clone().with("use_small_heuristics", "Max"));
    }
    v
}

/// Compare the non-doc comments of input and output.
pub fn compare_comments(input: &str, output: &str, cfg: &Cfg) -> Result<(), (String, String)> {
    let ci = lex::comments(input);
    let co = lex::comments(output);
    let rewriting = cfg.get("wrap_comments") == Some("true") || cfg.get("normalize_comments") == Some("true");
    if rewriting {
        let wi: Vec<String> = ci.iter().flat_map(|c| lex::comment_words(c)).collect();
        let wo: Vec<String> = co.iter().flat_map(|c| lex::comment_words(c)).collect();
        if wi != wo {
            return Err(("comment words changed".into(), format!("input words {wi:?}\noutput words {wo:?}")));
        }
        return Ok(());
    }
    let ni: Vec<String> = ci.iter().map(|c| lex::normalize_comment(c)).collect();
    let no: Vec<String> = co.iter().map(|c| lex::normalize_comment(c)).collect();
    if ni == no {
        return Ok(());
    }
    let mut si = ni.clone();
    let mut so = no.clone();
    si.sort();
    so.sort();
    if si == so {
        return Err(("comments reordered".into(), format!("input {ni:?}\noutput {no:?}")));
    }
    for c in &si {
        let a = si.iter().filter(|x| *x == c).count();
        let b = so.iter().filter(|x| *x == c).count();
        if b < a {
            // a comment of the input is missing: maybe its text was altered
            let what = if so.len() >= si.len() { "comment text altered" } else { "comment lost" };
            return Err((what.into(), format!("missing {c:?}\ninput {ni:?}\noutput {no:?}")));
        }
    }
    Err(("comment duplicated or invented".into(), format!("input {ni:?}\noutput {no:?}")))
}

impl Prop for C03 {
    fn id(&self) -> &'static str {
        "C03"
    }
    fn rule(&self) -> String {
        "corpus A form x context x {L0, LALL} x EVERY claimed comment position (before / after / after-separator of every item, \
         statement, field, variant, arm, parameter, argument from the independent parse; every token gap inside fn-body \
         statements) x comment style {line, block inline, block own line, two-line block, `////`, `/***`} x default and \
         comment-relevant configurations x style editions x every width (quick tier, deviated configurations: every width up to 70 and every fifth above); pairs of comments in the thorough tier. \
         Non-trivial = the case has a comment and the code around it was re-laid out (output differs from input); \
         distinct = distinct (input, config)."
            .into()
    }
    fn assumptions(&self) -> Vec<String> {
        vec![
            "comment tokens come from rustc_lexer on input and output; comparison is on text with every line trimmed (re-indentation, trailing blanks)".into(),
            "with wrap_comments / normalize_comments the concatenated word sequence of all comments is compared".into(),
        ]
    }
    fn units(&self, tier: Tier) -> Vec<Unit> {
        let thorough = tier == Tier::Thorough;
        let base = corpus_units(
            &Space {
                k: if thorough { 1 } else { 0 },
                ctx_limit: 1,
                layouts: if thorough { vec![Layout::L0, Layout::LAll] } else { vec![Layout::L0] },
                style_editions: vec![2024],
                cfg_mode: CfgMode::DefaultOnly,
                cfg_ctx_limit: 0,
                l1: false,
                dev_editions: vec![],
            },
            None,
        );
        let mut units = vec![];
        for u in base {
            if thorough {
                // thorough: base forms in the first two contexts of their kind (both layouts, every comment
                // configuration); forms with one deviating slot in their first context, from the one-line layout,
                // under the default configuration
                let ctx = u.extra["ctx"].as_str().unwrap_or("");
                let kind = match u.extra["kind"].as_str().unwrap_or("") {
                    "Item" => gen::AKind::Item,
                    "Assoc" => gen::AKind::Assoc,
                    "Stmt" => gen::AKind::Stmt,
                    "Expr" => gen::AKind::Expr,
                    "Type" => gen::AKind::Type,
                    "Pat" => gen::AKind::Pat,
                    _ => gen::AKind::File,
                };
                let ci = gen::contexts(kind).iter().position(|c| c.name == ctx).unwrap_or(0);
                let deviated = super::form_deviations(&u.key) > 0;
                if ci >= 2 || (deviated && !u.key.ends_with("/L0")) {
                    continue;
                }
                if deviated {
                    // deviated forms: default configuration only
                    units.push(u);
                    continue;
                }
            }
            // quick: base forms in the first two contexts of their kind
            if !thorough {
                let ctx = u.extra["ctx"].as_str().unwrap_or("");
                let kind = u.extra["kind"].as_str().unwrap_or("");
                let allowed: &[&str] = match kind {
                    "Item" => &["top", "mod"],
                    "Assoc" => &["impl"],
                    "Stmt" => &["fn", "deep5"],
                    "Expr" => &["let", "arg", "arm"],
                    "Type" => &["alias", "param"],
                    "Pat" => &["let", "arm"],
                    _ => &["file"],
                };
                if !allowed.contains(&ctx) {
                    continue;
                }
            }
            let family = u.extra["family"].as_str().unwrap_or("").to_string();
            // a non-initial starting state: the program as rustfmt itself lays it out (every element on a line
            // of its own), for the list-like families in the quick tier and for every family in the thorough tier
            if u.key.ends_with("/L0") && (thorough || family == "struct" || family == "enum") {
                let o = fmt::format(&u.text, &Cfg::new(u.cfg.style_edition), 60);
                if o.ok() && o.text != u.text {
                    let mut f = u.clone();
                    f.key = format!("{}/LFMT", u.key.trim_end_matches("/L0"));
                    f.text = o.text;
                    for cfg in comment_cfgs(tier, u.cfg.style_edition) {
                        let align = cfg.get("struct_field_align_threshold").is_some();
                        if !thorough && !align {
                            continue;
                        }
                        if align && !(family == "struct" || family == "enum") {
                            continue;
                        }
                        let mut v = f.clone();
                        v.cfg = cfg;
                        units.push(v);
                    }
                    units.push(f);
                }
            }
            for cfg in comment_cfgs(tier, u.cfg.style_edition) {
                // the alignment options concern field / variant lists only
                if cfg.get("struct_field_align_threshold").is_some() && !(family == "struct" || family == "enum") {
                    continue;
                }
                let mut v = u.clone();
                v.cfg = cfg;
                units.push(v);
            }
            units.push(u);
        }
        units
    }
    fn check(&self, u: &Unit, tier: Tier, sink: &mut Sink) {
        let thorough = tier == Tier::Thorough;
        let Some(pos) = positions_kinded(&u.text, u.cfg.edition) else {
            sink.count("dropped_unparsable", 1);
            return;
        };
        let default_cfg = u.cfg.kv.is_empty();
        let mut cases: Vec<(String, String)> = vec![];
        for (off, kind, _nk) in &pos {
            // deviated configurations: element boundaries only (the list machinery), not
            // every token gap inside statements
            if !default_cfg && *kind == PosKind::Inside {
                continue;
            }
            let styles: Vec<CStyle> = match kind {
                PosKind::Before => {
                    if thorough {
                        vec![CStyle::LineOwn, CStyle::BlockOwn, CStyle::BlockMulti, CStyle::Line4, CStyle::BlockInline]
                    } else if default_cfg {
                        vec![CStyle::LineOwn, CStyle::BlockOwn, CStyle::BlockMulti]
                    } else {
                        vec![CStyle::LineOwn, CStyle::BlockMulti]
                    }
                }
                PosKind::AfterSep => {
                    if thorough && !default_cfg {
                        // (`/***` openers are re-spelled `/* *` by the comment-rewriting options: known finding,
                        // represented under the default configuration's neighbours only)
                        vec![CStyle::LineEol, CStyle::BlockInline]
                    } else if thorough {
                        vec![CStyle::LineEol, CStyle::BlockInline, CStyle::Block3]
                    } else {
                        vec![CStyle::LineEol, CStyle::BlockInline]
                    }
                }
                PosKind::AfterElem => {
                    if thorough || default_cfg {
                        vec![CStyle::BlockInline, CStyle::LineEol]
                    } else {
                        vec![CStyle::BlockInline]
                    }
                }
                PosKind::Inside => {
                    if thorough {
                        vec![CStyle::BlockInline, CStyle::LineEol]
                    } else {
                        vec![CStyle::BlockInline]
                    }
                }
            };
            let mut styles = styles;
            if *kind == PosKind::Before && (thorough || u.cfg.get("struct_field_align_threshold").is_some()) {
                // a comment next to a blank line (group boundaries)
                styles.push(CStyle::LineOwnBlankAfter);
                styles.push(CStyle::LineOwnBlankBefore);
            }
            for st in styles {
                let input = gen::insert_comments(&u.text, &[(*off, st)]);
                cases.push((format!("+c@{off}:{kind:?}:{st:?}"), input));
            }
        }
        if default_cfg {
            // two comments around one separator: `elem /* a */ , // b`
            for (off, kind, _nk) in &pos {
                if *kind != PosKind::AfterElem {
                    continue;
                }
                if let Some((off2, _, _)) = pos.iter().find(|(o, k, _)| *k == PosKind::AfterSep && *o > *off && *o <= *off + 3) {
                    let input = gen::insert_comments(&u.text, &[(*off, CStyle::BlockInline), (*off2, CStyle::LineEol)]);
                    cases.push((format!("+c@{off}:blk+c@{off2}:eol"), input));
                    let input = gen::insert_comments(&u.text, &[(*off, CStyle::BlockInline), (*off2, CStyle::BlockInline)]);
                    cases.push((format!("+c@{off}:blk+c@{off2}:blk"), input));
                }
            }
        }
        if thorough && default_cfg {
            // pairs of comments at element boundaries
            let b: Vec<_> = pos.iter().filter(|p| p.1 != PosKind::Inside).collect();
            for i in 0..b.len() {
                for j in i + 1..b.len() {
                    let s1 = if b[i].1 == PosKind::Before { CStyle::LineOwn } else { CStyle::LineEol };
                    let s2 = if b[j].1 == PosKind::Before { CStyle::BlockOwn } else { CStyle::BlockInline };
                    let input = gen::insert_comments(&u.text, &[(b[i].0, s1), (b[j].0, s2)]);
                    cases.push((format!("+c@{}+c@{}", b[i].0, b[j].0), input));
                }
            }
        }
        let mut sampled = false;
        for (label, input) in cases {
            if !parse::parses(&input, u.cfg.edition) {
                sink.count("dropped_unparsable", 1);
                continue;
            }
            sink.count("comment_cases", 1);
            if !sampled {
                sampled = true;
                sink.sample(json!({"unit": format!("{}{}", u.key, label), "input": input, "config": u.cfg.label()}));
            }
            let mut prev: Option<String> = None;
            let mut relaid = false;
            for w in widths_for(&u.cfg, tier) {
                // quick tier, deviated configurations: every width up to 70, every fifth above
                if !thorough && !default_cfg && w > 70 && w % 5 != 0 {
                    continue;
                }
                let o = fmt::format(&input, &u.cfg, w);
                if !o.ok() {
                    continue;
                }
                if o.text != input {
                    relaid = true;
                }
                if prev.as_deref() == Some(o.text.as_str()) {
                    continue;
                }
                if let Err((what, detail)) = compare_comments(&input, &o.text, &u.cfg) {
                    // comments travel with the imports they are attached to when imports are reordered
                    if what == "comments reordered" && u.extra["family"] == "use" {
                        continue;
                    }
                    let mut vu = u.clone();
                    vu.text = input.clone();
                    vu.key = format!("{}{}", u.key, label);
                    sink.violation("C03", &vu, w, &what, format!("{detail}\n--- output ---\n{}", o.text));
                }
                prev = Some(o.text);
            }
            if relaid {
                sink.distinct.insert(hash64(&format!("{input}\u{0}{}", u.cfg.label())));
            }
        }
    }
}
