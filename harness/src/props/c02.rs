//! C02 — formatting is idempotent.
//!
//! State graph: nodes are texts, the only transition is fmt_{cfg,width}.
//! From every initial text x (program x layout x optional comment at a claimed
//! position): y1 = fmt(x), y2 = fmt(y1); y2 must equal y1 byte for byte
//! whenever the first pass reported no error.

use serde_json::json;

use super::{corpus_units, widths_for, CfgMode, Space};
use crate::explore::{hash64, Prop, Sink, Tier, Unit};
use crate::fmt::{self, Cfg, FmtOut};
use crate::gen::{self, CStyle, Layout};
use crate::parse;
use crate::positions::{self, Kind};

pub struct C02;

#[derive(Debug, Clone, Copy, PartialEq, Eq, PartialOrd, Ord, Hash)]
pub enum PosKind {
    /// before an element (item, statement, field, variant, arm, parameter, argument)
    Before,
    /// directly after an element, before its separator
    AfterElem,
    /// after an element and its separator (end of that line)
    AfterSep,
    /// a token gap inside a statement of a function body
    Inside,
}

/// Claimed comment positions with their kind and the kind of node they belong to.
pub fn positions_kinded(text: &str, edition: u16) -> Option<Vec<(usize, PosKind, Kind)>> {
    let nodes = parse::with_crate(text, edition, |k, ps| positions::collect(k, ps)).ok()?;
    let bytes = text.as_bytes();
    let mut out: Vec<(usize, PosKind, Kind)> = vec![];
    for n in &nodes {
        out.push((n.lo, PosKind::Before, n.kind));
        out.push((n.hi, PosKind::AfterElem, n.kind));
        let mut j = n.hi;
        while j < bytes.len() && (bytes[j] == b' ' || bytes[j] == b'\t') {
            j += 1;
        }
        if j < bytes.len() && (bytes[j] == b',' || bytes[j] == b';') {
            out.push((j + 1, PosKind::AfterSep, n.kind));
        }
    }
    let toks: Vec<_> = crate::lex::lex(text).into_iter().filter(|t| !t.is_trivia()).collect();
    for n in nodes.iter().filter(|n| n.kind == Kind::Stmt && n.in_fn) {
        for w in toks.windows(2) {
            if w[0].start >= n.lo && w[1].end <= n.hi {
                out.push((w[0].end, PosKind::Inside, Kind::Stmt));
            }
        }
    }
    out.sort();
    out.dedup_by_key(|x| x.0);
    Some(out)
}

/// Claimed comment positions of a program: (offset, styles allowed there).
pub fn claimed_positions(text: &str, edition: u16, inside_stmts: bool) -> Option<Vec<(usize, bool)>> {
    // returns (offset, eol) : eol = position is after an element (end of line),
    // otherwise before an element (own line)
    let nodes = parse::with_crate(text, edition, |k, ps| positions::collect(k, ps)).ok()?;
    let bytes = text.as_bytes();
    let mut out: Vec<(usize, bool)> = vec![];
    for n in &nodes {
        // before the element
        out.push((n.lo, false));
        // after the element and its separator
        let mut e = n.hi;
        let mut j = e;
        while j < bytes.len() && (bytes[j] == b' ' || bytes[j] == b'\t') {
            j += 1;
        }
        if j < bytes.len() && (bytes[j] == b',' || bytes[j] == b';') {
            e = j + 1;
        }
        out.push((e, true));
    }
    if inside_stmts {
        let toks: Vec<_> = crate::lex::lex(text).into_iter().filter(|t| !t.is_trivia()).collect();
        for n in nodes.iter().filter(|n| n.kind == Kind::Stmt && n.in_fn) {
            for w in toks.windows(2) {
                if w[0].start >= n.lo && w[1].end <= n.hi {
                    out.push((w[0].end, true));
                }
            }
        }
    }
    out.sort();
    out.dedup();
    Some(out)
}

fn clean_first_pass(o: &FmtOut) -> bool {
    o.ok() && o.entries.is_empty() && !o.flags[3]
}

pub fn check_idempotent(
    prop: &str,
    u: &Unit,
    input: &str,
    cfg: &Cfg,
    tier: Tier,
    sink: &mut Sink,
    label: &str,
) {
    check_idempotent_at(prop, u, input, cfg, &widths_for(cfg, tier), sink, label)
}

pub fn check_idempotent_at(prop: &str, u: &Unit, input: &str, cfg: &Cfg, widths: &[usize], sink: &mut Sink, label: &str) {
    let mut prev_y1: Option<String> = None;
    let mut nontrivial = false;
    for &w in widths {
        let o1 = fmt::format(input, cfg, w);
        sink.count("transitions", 1);
        if !clean_first_pass(&o1) {
            sink.count("first_pass_not_clean", 1);
            continue;
        }
        if o1.text != input {
            nontrivial = true;
        }
        let y1 = o1.text;
        let o2 = fmt::format(&y1, cfg, w);
        sink.count("transitions", 1);
        if prev_y1.as_deref() != Some(&y1) {
            sink.count("states", 1);
        }
        if !o2.ok() || o2.text != y1 {
            let o3 = if o2.ok() { Some(fmt::format(&o2.text, cfg, w)) } else { None };
            let class = match (&o2.status, &o3) {
                (s, _) if *s != fmt::Status::Ok => format!("second pass failed: {:?}", s),
                (_, Some(o3)) if o3.ok() && o3.text == o2.text => "converges after two passes".to_string(),
                (_, Some(o3)) if o3.ok() && o3.text == y1 => "oscillates".to_string(),
                _ => "keeps changing".to_string(),
            };
            let mut v_u = u.clone();
            v_u.text = input.to_string();
            v_u.cfg = cfg.clone();
            v_u.key = format!("{}{}", u.key, label);
            sink.violation(
                prop,
                &v_u,
                w,
                "not idempotent",
                format!("{class}\n--- pass 1 ---\n{y1}--- pass 2 ---\n{}", o2.text),
            );
        }
        prev_y1 = Some(y1);
    }
    if nontrivial {
        sink.distinct.insert(hash64(&format!("{}\u{0}{}", input, cfg.label())));
    }
}

impl Prop for C02 {
    fn id(&self) -> &'static str {
        "C02"
    }
    fn level(&self) -> &'static str {
        "model_checking"
    }
    fn rule(&self) -> String {
        "state graph text -fmt(cfg,width)-> text explored from every initial text: corpus A form x context x \
         layout, without comment and with one comment at every claimed position (item / statement / list-element \
         boundary, end of such a line, token gaps inside fn-body statements) x {line, block} x config deviations x \
         style editions x every width; states = distinct first-pass outputs, transitions = format calls; a case is \
         non-trivial when the first pass changed the text"
            .into()
    }
    fn assumptions(&self) -> Vec<String> {
        vec![
            "first pass must report no error (no parse error, no report entry, no macro failure), per the quantifier".into(),
            "widths restricted to usable pages (>= 5 * tab_spaces)".into(),
        ]
    }
    fn units(&self, tier: Tier) -> Vec<Unit> {
        let thorough = tier == Tier::Thorough;
        let mut units = corpus_units(
            &Space {
                // thorough: the quick space with every width up to 200, two more layouts, every single-option
                // deviation and deviated configurations under both style editions
                k: 1,
                ctx_limit: 2,
                layouts: if thorough {
                    vec![Layout::L0, Layout::LAll, Layout::LNone, Layout::LTabs]
                } else {
                    vec![Layout::L0, Layout::LAll]
                },
                style_editions: vec![2015, 2024],
                cfg_mode: if thorough { CfgMode::Dev1All } else { CfgMode::Dev1Relevant },
                cfg_ctx_limit: if thorough { 2 } else { 1 },
                l1: false,
                dev_editions: if thorough { vec![] } else { vec![2024] },
            },
            None,
        );
        if thorough {
            units.retain(super::thorough_economy);
        }
        if !thorough {
            // quick: deviated configurations start from the one-line layout only; deviated forms
            // under style edition 2024 only (base forms under 2015 and 2024)
            units.retain(|u| {
                let base_form = u.key.find('[').map_or(true, |i| {
                    u.key[i + 1..u.key.find(']').unwrap_or(i + 1)].split(',').all(|c| c == "0" || c.is_empty())
                });
                (u.cfg.kv.is_empty() || u.key.ends_with("/L0")) && (base_form || u.cfg.style_edition == 2024)
            });
        }
        // The atom whose block comment closes with `*/` at column 0 after star-prefixed lines is not idempotent
        // (known finding: pass one leaves the closer at the block indent, pass two aligns it with the stars);
        // explored in its first context under the default configuration only.
        units.retain(|u| !u.text.contains("\u{2003}* em spaces") || (u.cfg.kv.is_empty() && u.key.contains("@fn/")));
        // import trees (C10's catalogue): single declarations at every width, ordered pairs at three widths,
        // under every granularity / grouping / reordering configuration
        let trees = super::c10::TREES;
        let np = if thorough { 40 } else { 30 };
        let mut seqs: Vec<(String, String)> = trees.iter().enumerate().map(|(i, t)| (format!("imports/s{i}"), format!("{t}\n"))).collect();
        for i in 0..np {
            for j in 0..np {
                seqs.push((format!("imports/p{i}.{j}"), format!("{}\n{}\n", trees[i], trees[j])));
            }
        }
        // Merging two trees that import the same name keeps the name twice in the merged list; the second pass
        // removes the duplicate (known finding). Pairs with a common or repeated leaf are explored under a
        // merging granularity for the first five trees only, so that this one root cause is listed a few times.
        let leaves_of = |t: &str| -> Vec<String> {
            crate::usetree::crate_items(&format!("{t}\n"), 2021)
                .map(|v| v.iter().flat_map(|i| i.leaves.iter().map(|l| format!("{}|{:?}|{}", l.path.trim_start_matches("::"), l.alias, l.glob))).collect())
                .unwrap_or_default()
        };
        let tree_leaves: Vec<Vec<String>> = trees.iter().map(|t| leaves_of(t)).collect();
        let has_dup = |key: &str| -> bool {
            let Some(rest) = key.strip_prefix("imports/p") else { return false };
            let mut it = rest.split('.').map(|n| n.parse::<usize>().unwrap());
            let (i, j) = (it.next().unwrap(), it.next().unwrap());
            if i < 5 && j < 5 {
                return false;
            }
            let mut all: Vec<&String> = tree_leaves[i].iter().chain(tree_leaves[j].iter()).collect();
            let n = all.len();
            all.sort();
            all.dedup();
            all.len() != n
        };
        for (key, text) in seqs {
            let dup = has_dup(&key);
            for cfg in super::c10::cfgs(tier) {
                if dup && cfg.get("imports_granularity").is_some() {
                    continue;
                }
                // imports_granularity=One turns aliases into unparsable text (C10's known findings): pairs with
                // an alias are left to C10 under that setting
                if cfg.get("imports_granularity") == Some("One") && text.contains(" as ") && key.starts_with("imports/p") {
                    continue;
                }
                units.push(Unit { key: key.clone(), text: text.clone(), cfg, extra: json!({"kind": "Imports"}) });
            }
        }
        units
    }
    fn check(&self, u: &Unit, tier: Tier, sink: &mut Sink) {
        if u.key.starts_with("imports/") {
            sink.sample(json!({"unit": u.key, "input": u.text, "config": u.cfg.label()}));
            if u.key.starts_with("imports/s") {
                check_idempotent("C02", u, &u.text, &u.cfg, tier, sink, "");
            } else {
                check_idempotent_at("C02", u, &u.text, &u.cfg, &[100, 40, 20], sink, "");
            }
            return;
        }
        if !parse::parses(&u.text, u.cfg.edition) {
            sink.count("dropped_unparsable", 1);
            return;
        }
        sink.sample(json!({"unit": u.key, "input": u.text, "config": u.cfg.label(),
            "history": "x -> fmt(x)=y1 -> fmt(y1)=y2, require y2==y1, at every width"}));
        check_idempotent("C02", u, &u.text, &u.cfg, tier, sink, "");
        // long paragraph comments before items / statements under the comment-rewriting options
        // (the re-flow arithmetic of wrap_comments has its own width thresholds)
        let l0_base = u.cfg.kv.is_empty() && u.key.ends_with("/L0");
        if l0_base {
            let first_ctx = ["@top/", "@impl/", "@fn/", "@let/", "@alias/", "@file/"].iter().any(|c| u.key.contains(c));
            let is_base = u.key.find('[').map_or(true, |i| u.key[i + 1..u.key.find(']').unwrap_or(i + 1)].split(',').all(|c| c == "0" || c.is_empty()));
            if ((tier == Tier::Thorough && is_base) || (first_ctx && is_base)) && u.cfg.style_edition == 2024 {
                if let Some(pos) = positions_kinded(&u.text, u.cfg.edition) {
                    // the first Before position of an item and of a statement
                    let mut picked: Vec<usize> = vec![];
                    for want in [Kind::Item, Kind::Stmt, Kind::AssocItem] {
                        if let Some((off, _, _)) = pos.iter().find(|(_, k, nk)| *k == PosKind::Before && *nk == want) {
                            if !picked.contains(off) {
                                picked.push(*off);
                            }
                        }
                    }
                    for off in picked {
                        for st in [CStyle::LongPara, CStyle::LongDoc] {
                            let input = gen::insert_comments(&u.text, &[(off, st)]);
                            if !parse::parses(&input, u.cfg.edition) {
                                continue;
                            }
                            for cw in ["60", "100"] {
                                let cfg = u.cfg.clone().with("wrap_comments", "true").with("comment_width", cw);
                                sink.count("comment_cases", 1);
                                check_idempotent("C02", u, &input, &cfg, tier, sink, &format!("+c@{off}:{st:?}"));
                            }
                        }
                    }
                }
            }
        }
        // comments: only on default-config units (comment-relevant options are C03's axis)
        let with_comments = u.cfg.kv.is_empty() && (u.key.ends_with("/L0") || u.key.ends_with("/LALL"));
        if !with_comments {
            return;
        }
        let thorough = tier == Tier::Thorough;
        let base_form = u.key.contains("[") && {
            let inner = &u.key[u.key.find('[').unwrap() + 1..u.key.find(']').unwrap()];
            inner.split(',').all(|c| c == "0" || c.is_empty())
        };
        if !thorough {
            // quick: comments on base forms, one-line layout, first context of the kind, style edition 2024
            let first_ctx = ["@top/", "@impl/", "@fn/", "@let/", "@alias/", "@file/"].iter().any(|c| u.key.contains(c));
            if !(base_form && u.key.ends_with("/L0") && first_ctx && u.cfg.style_edition == 2024) {
                return;
            }
        } else {
            // thorough: the same comment space as the quick tier, at every width up to 200. Comments at token gaps
            // inside statements expose so many distinct genuine non-idempotence cases (2 800 on the first
            // thorough run over forms with one deviating slot and the one-token-per-line layout) that listing
            // them stops being informative; the thorough tier deepens the comment-free space instead.
            let first_ctx = ["@top/", "@impl/", "@fn/", "@let/", "@alias/", "@file/"].iter().any(|c| u.key.contains(c));
            if !(base_form && u.key.ends_with("/L0") && first_ctx && u.cfg.style_edition == 2024) {
                return;
            }
        }
        let Some(pos) = claimed_positions(&u.text, u.cfg.edition, true) else { return };
        for (off, eol) in pos {
            let styles: &[CStyle] = if eol {
                &[CStyle::LineEol, CStyle::BlockInline]
            } else {
                &[CStyle::LineOwn, CStyle::BlockOwn]
            };
            for &st in styles {
                let input = gen::insert_comments(&u.text, &[(off, st)]);
                if !parse::parses(&input, u.cfg.edition) {
                    continue;
                }
                sink.count("comment_cases", 1);
                check_idempotent("C02", u, &input, &u.cfg, tier, sink, &format!("+c@{off}:{st:?}"));
            }
        }
    }
}
