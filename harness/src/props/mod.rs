//! Property checkers. Each implements `explore::Prop`.

use serde_json::json;

use crate::configs;
use crate::explore::{Tier, Unit};
use crate::fmt::{self, Cfg, FmtOut};
use crate::gen::{self, Layout, Program};

pub mod c01;
pub mod c02;
pub mod c03;
pub mod c04;
pub mod c07;
pub mod c08;
pub mod c09;
pub mod c10;
pub mod c11;
pub mod c12;
pub mod c15;
pub mod c16;
pub mod c17;

pub fn all() -> Vec<Box<dyn crate::explore::Prop>> {
    vec![Box::new(c01::C01), Box::new(c02::C02), Box::new(c03::C03), Box::new(c04::C04), Box::new(c07::C07), Box::new(c08::C08), Box::new(c09::C09), Box::new(c10::C10), Box::new(c11::C11), Box::new(c12::C12), Box::new(c15::C15), Box::new(c16::C16), Box::new(c17::C17)]
}

#[derive(Debug, Clone, Copy, PartialEq, Eq)]
pub enum CfgMode {
    DefaultOnly,
    /// deviation 1 restricted by the relevance table
    Dev1Relevant,
    /// deviation 1, every option
    Dev1All,
    /// Dev1All plus interaction pairs
    Dev2,
}

pub struct Space {
    pub k: usize,
    pub ctx_limit: usize,
    pub layouts: Vec<Layout>,
    pub style_editions: Vec<u16>,
    pub cfg_mode: CfgMode,
    /// deviated configs only for base forms in the first `cfg_ctx_limit` contexts
    pub cfg_ctx_limit: usize,
    /// expand L1 layouts (one per breakable gap)
    pub l1: bool,
    /// style editions under which deviated configurations are explored (empty = all)
    pub dev_editions: Vec<u16>,
}

pub fn program_unit(p: &Program, l: Layout, text: String, cfg: Cfg) -> Unit {
    Unit {
        key: format!("{}/{}", p.key(), l.label()),
        text,
        cfg,
        extra: json!({"family": p.family, "ctx": p.ctx, "depth": p.depth, "kind": format!("{:?}", p.kind)}),
    }
}

/// Number of slots of a corpus-A form that deviate from the base value (from the unit key `fam#n[i,j,..]@ctx/L`).
pub fn form_deviations(key: &str) -> usize {
    match (key.find('['), key.find(']')) {
        (Some(a), Some(b)) if a < b => key[a + 1..b].split(',').filter(|c| !c.is_empty() && *c != "0").count(),
        _ => 0,
    }
}

/// Thorough-tier economy shared by the corpus properties: forms with two deviating slots are explored under
/// the default configuration, from the one-line and the one-token-per-line layouts, in the first three
/// contexts of their kind (`ctx_limit`); deviated configurations start from those two layouts as well.
pub fn thorough_economy(u: &crate::explore::Unit) -> bool {
    let default_cfg = u.cfg.kv.is_empty();
    let l = u.key.rsplit('/').next().unwrap_or("");
    let d = form_deviations(&u.key);
    (default_cfg || l == "L0" || l == "LALL") && (default_cfg || d <= 1) && (d <= 1 || l == "L0" || l == "LALL")
}

/// Enumerate (program, layout, config) units of corpus A for a space.
pub fn corpus_units(space: &Space, filter: Option<&dyn Fn(&gen::Template) -> bool>) -> Vec<Unit> {
    let progs = gen::programs(space.k, space.ctx_limit, filter);
    let mut out = Vec::new();
    for p in &progs {
        let is_base = p.choice.iter().all(|&c| c == 0);
        let mut layouts: Vec<(Layout, String)> = vec![];
        for &l in &space.layouts {
            let t = gen::layout(&p.text, l);
            if l != Layout::L0 && (t == p.text || !gen::same_tokens(&p.text, &t)) {
                continue;
            }
            if layouts.iter().any(|(_, x)| *x == t) {
                continue;
            }
            layouts.push((l, t));
        }
        if space.l1 && is_base {
            for n in 0..gen::count_breakable(&p.text) {
                let l = Layout::L1(n);
                let t = gen::layout(&p.text, l);
                if gen::same_tokens(&p.text, &t) && !layouts.iter().any(|(_, x)| *x == t) {
                    layouts.push((l, t));
                }
            }
        }
        let ctx_index = gen::contexts(p.kind).iter().position(|c| c.name == p.ctx).unwrap_or(0);
        for &se in &space.style_editions {
            let base = Cfg::new(se);
            let mut cfgs = vec![base.clone()];
            if is_base && ctx_index < space.cfg_ctx_limit && (space.dev_editions.is_empty() || space.dev_editions.contains(&se)) {
                match space.cfg_mode {
                    CfgMode::DefaultOnly => {}
                    CfgMode::Dev1Relevant => cfgs.extend(configs::deviations1(&p.family, &base, true)),
                    CfgMode::Dev1All => cfgs.extend(configs::deviations1(&p.family, &base, false)),
                    CfgMode::Dev2 => {
                        cfgs.extend(configs::deviations1(&p.family, &base, false));
                        cfgs.extend(configs::deviations2(&p.family, &base));
                    }
                }
            }
            for (ci, cfg) in cfgs.into_iter().enumerate() {
                for (li, (l, t)) in layouts.iter().enumerate() {
                    // deviated configs: L0 and LALL only
                    if ci > 0 && li > 1 {
                        continue;
                    }
                    out.push(program_unit(p, *l, t.clone(), cfg.clone()));
                }
            }
        }
    }
    out
}

/// Width sweep: calls `f(width, out, same_as_previous_width)`.
pub fn sweep(text: &str, cfg: &Cfg, tier: Tier, f: impl FnMut(usize, &FmtOut, bool) -> bool) {
    sweep_where(text, cfg, tier, |_| true, f)
}

/// Like `sweep`, over the widths accepted by `keep`.
pub fn sweep_where(text: &str, cfg: &Cfg, tier: Tier, keep: impl Fn(usize) -> bool, mut f: impl FnMut(usize, &FmtOut, bool) -> bool) {
    let mut prev: Option<(String, fmt::Status, usize)> = None;
    for w in widths_for(cfg, tier) {
        if !keep(w) {
            continue;
        }
        let out = fmt::format(text, cfg, w);
        let same = match &prev {
            Some((t, s, n)) => *t == out.text && *s == out.status && *n == out.entries.len(),
            None => false,
        };
        if !f(w, &out, same) {
            break;
        }
        prev = Some((out.text.clone(), out.status.clone(), out.entries.len()));
    }
}

/// Widths of a tier, restricted to a "usable page": at least five
/// indentation steps wide.
pub fn widths_for(cfg: &Cfg, tier: Tier) -> Vec<usize> {
    let ts: usize = cfg.get("tab_spaces").and_then(|v| v.parse().ok()).unwrap_or(4);
    tier.widths().into_iter().filter(|w| *w >= 5 * ts).collect()
}
