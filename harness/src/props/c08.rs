//! C08 — emitted text obeys the whitespace and newline discipline.
//!
//! Enumerated: corpus A programs x blank-line / indentation layouts x
//! terminator patterns {LF, CRLF, LF-then-CRLF, CRLF-then-LF} x leading /
//! trailing blank lines x newline_style x blank_lines_upper/lower_bound x
//! hard_tabs / tab_spaces x widths. Oracle: byte scan of the emitted text,
//! gaps located with the independent parse of the output.

use rustc_ast::visit::{self, Visitor};
use rustc_ast::ast;
use serde_json::json;

use super::{corpus_units, widths_for, CfgMode, Space};
use crate::explore::{hash64, Prop, Sink, Tier, Unit};
use crate::fmt::{self, Cfg};
use crate::gen::Layout;
use crate::lex::{self, Class};
use crate::parse;
use crate::positions::{self, span_off, Kind};

pub struct C08;

#[derive(Clone, Copy, Debug, PartialEq, Eq)]
pub enum Term {
    Lf,
    Crlf,
    LfThenCrlf,
    CrlfThenLf,
}

pub fn apply_term(text: &str, t: Term) -> String {
    let mut out = String::with_capacity(text.len() + 16);
    let mut first = true;
    for ch in text.chars() {
        if ch == '\n' {
            let crlf = match t {
                Term::Lf => false,
                Term::Crlf => true,
                Term::LfThenCrlf => !first,
                Term::CrlfThenLf => first,
            };
            if crlf {
                out.push('\r');
            }
            out.push('\n');
            first = false;
        } else {
            out.push(ch);
        }
    }
    out
}

/// Blank-line runs at node boundaries: `n` blank lines before every item,
/// statement and list element of `text` (an L0 program).
pub fn blank_at_boundaries(text: &str, n: usize, edition: u16, tabs: bool) -> Option<String> {
    blank_at_boundaries_with(text, n, edition, tabs, "")
}

/// Like `blank_at_boundaries`; the middle blank line of every run holds `odd` (white space other
/// than space / tab that the lexer accepts between tokens: vertical tab, form feed, U+2028, ...).
pub fn blank_at_boundaries_with(text: &str, n: usize, edition: u16, tabs: bool, odd: &str) -> Option<String> {
    let nodes = parse::with_crate(text, edition, |k, ps| positions::collect(k, ps)).ok()?;
    let mut offs: Vec<usize> = nodes.iter().map(|x| x.lo).filter(|&o| o > 0).collect();
    // also before closing braces that follow a node (trailing blank lines inside blocks)
    for nd in &nodes {
        let rest = &text[nd.hi..];
        let t = rest.trim_start_matches([' ', ',', ';']);
        if t.starts_with('}') {
            offs.push(nd.hi + (rest.len() - t.len()));
        }
    }
    offs.sort();
    offs.dedup();
    let mut out = String::new();
    let mut pos = 0;
    for (i, o) in offs.iter().enumerate() {
        out.push_str(text[pos..*o].trim_end_matches(' '));
        for k in 0..=n {
            if !odd.is_empty() && k == (n + 1) / 2 && k > 0 {
                out.push_str(odd);
            }
            out.push('\n');
        }
        if tabs {
            out.push_str(if i % 2 == 0 { "\t  " } else { " \t" });
        }
        pos = *o;
    }
    out.push_str(&text[pos..]);
    Some(out)
}

fn is_long(text: &str) -> bool {
    text.len() > 90 || lex::lex(text).iter().any(|t| t.class == Class::Word && t.end - t.start > 12)
}

struct MacroSpans<'a> {
    psess: &'a rustc_session::parse::ParseSess,
    spans: Vec<(usize, usize)>,
}
impl<'a, 'ast> Visitor<'ast> for MacroSpans<'a> {
    fn visit_mac_call(&mut self, m: &'ast ast::MacCall) {
        self.spans.push(span_off(self.psess, m.args.dspan.entire()));
    }
    fn visit_item(&mut self, i: &'ast ast::Item) {
        if let ast::ItemKind::MacroDef(..) = i.kind {
            self.spans.push(span_off(self.psess, i.span));
        }
        visit::walk_item(self, i);
    }
    fn visit_attribute(&mut self, a: &'ast ast::Attribute) {
        // attribute arguments are token streams too
        self.spans.push(span_off(self.psess, a.span));
    }
}

pub struct OutInfo {
    pub nodes: Vec<positions::Node>,
    pub macro_spans: Vec<(usize, usize)>,
}

pub fn analyse(out: &str, edition: u16) -> Result<OutInfo, String> {
    parse::with_crate(out, edition, |k, ps| {
        let nodes = positions::collect(k, ps);
        let mut m = MacroSpans { psess: ps, spans: vec![] };
        visit::walk_crate(&mut m, k);
        OutInfo { nodes, macro_spans: m.spans }
    })
}

/// Longest run of blank lines in `gap` (text between two nodes).
fn max_blank_run(gap: &str) -> usize {
    // the gap starts right after a node and ends right before the next: the
    // number of blank lines in a stretch of k consecutive terminators is k-1
    let g = gap.replace("\r\n", "\n");
    let mut best = 0usize;
    let mut run = 0usize;
    let mut seen_nl = false;
    for line in g.split('\n') {
        // first piece is the rest of the previous node's line
        if !seen_nl {
            seen_nl = true;
            continue;
        }
        if line.trim().is_empty() {
            run += 1;
        } else {
            best = best.max(run);
            run = 0;
        }
    }
    // the last piece is the indentation before the next node (not a blank line)
    if run > 0 {
        best = best.max(run - 1);
    }
    best
}

pub fn check_text(input: &str, out: &str, cfg: &Cfg, width: usize) -> Vec<(String, String)> {
    let mut bad: Vec<(String, String)> = vec![];
    let has_content = lex::lex(input).iter().any(|t| t.class != Class::Ws);
    if !has_content {
        return bad;
    }
    let style = cfg.get("newline_style").unwrap_or("Auto");
    let windows = match style {
        "Windows" => true,
        "Unix" | "Native" => false,
        _ => match input.find('\n') {
            Some(i) => i > 0 && input.as_bytes()[i - 1] == b'\r',
            None => false,
        },
    };
    // 1. exactly one terminator at the end (its style is judged below), no blank first line
    let body = out.strip_suffix("\r\n").or_else(|| out.strip_suffix('\n'));
    match body {
        None => bad.push(("does not end with a line terminator".into(), format!("{:?}", tail(out)))),
        Some(b) => {
            if b.ends_with('\n') || b.ends_with('\r') {
                bad.push(("more than one terminator at the end".into(), format!("{:?}", tail(out))));
            }
        }
    }
    let first_line = out.split('\n').next().unwrap_or("");
    if first_line.trim().is_empty() && !out.trim().is_empty() {
        bad.push(("starts with a blank line".into(), format!("{:?}", &out[..out.len().min(40)])));
    }
    // 2. terminator discipline
    let b = out.as_bytes();
    for (i, &c) in b.iter().enumerate() {
        if c == b'\n' {
            let crlf = i > 0 && b[i - 1] == b'\r';
            if windows && !crlf {
                bad.push(("LF without CR under Windows style".into(), format!("offset {i}")));
                break;
            }
            if !windows && crlf {
                bad.push(("CRLF under Unix style".into(), format!("offset {i}")));
                break;
            }
        }
    }
    // 4/5 need the parse of the output
    let unix = out.replace("\r\n", "\n");
    let info = match analyse(&unix, cfg.edition) {
        Ok(i) => i,
        Err(_) => return bad, // unparsable output is C01's business
    };
    let upper: usize = cfg.get("blank_lines_upper_bound").and_then(|v| v.parse().ok()).unwrap_or(1);
    let toks = lex::lex(&unix);
    let in_comment_or_str = |off: usize| {
        toks.iter().any(|t| {
            (matches!(t.class, Class::Comment | Class::DocComment) || t.is_str_lit()) && t.start < off && off < t.end
        })
    };
    // blank lines between consecutive nodes of one list
    let mut by_list: std::collections::BTreeMap<usize, Vec<&positions::Node>> = Default::default();
    for n in &info.nodes {
        by_list.entry(n.list).or_default().push(n);
    }
    for (_, ns) in by_list {
        for w in ns.windows(2) {
            let (a, b) = (w[0], w[1]);
            if a.hi > b.lo {
                continue;
            }
            // items interleaved with statements share the block's list
            let limit = match (a.kind, b.kind) {
                (Kind::Item | Kind::Stmt | Kind::AssocItem | Kind::ForeignItem, Kind::Item | Kind::Stmt | Kind::AssocItem | Kind::ForeignItem) => upper,
                _ => 1,
            };
            let gap = &unix[a.hi..b.lo];
            if info.macro_spans.iter().any(|&(lo, hi)| lo <= a.hi && b.lo <= hi && (lo, hi) != (a.lo, a.hi)) {
                continue;
            }
            let run = max_blank_run(gap);
            if run > limit {
                bad.push((
                    format!("{run} blank lines between consecutive {:?}/{:?} (limit {limit})", a.kind, b.kind),
                    format!("{:?}", gap),
                ));
            }
        }
    }
    // 5. indentation
    let hard_tabs = cfg.get("hard_tabs") == Some("true");
    let mut off = 0usize;
    for line in unix.split('\n') {
        let ws_len = line.len() - line.trim_start_matches([' ', '\t']).len();
        let ws = &line[..ws_len];
        let exempt = line.trim().is_empty()
            || in_comment_or_str(off)
            || in_comment_or_str(off + ws_len)
            || info.macro_spans.iter().any(|&(lo, hi)| lo < off && off < hi);
        if !exempt {
            let ok = if hard_tabs {
                let t = ws.trim_start_matches('\t');
                !t.contains('\t')
            } else {
                !ws.contains('\t')
            };
            if !ok {
                bad.push((
                    if hard_tabs { "space before tab in indentation".into() } else { "tab in indentation with hard_tabs off".into() },
                    format!("{line:?}"),
                ));
                break;
            }
        }
        off += line.len() + 1;
    }
    let _ = width;
    bad
}

fn tail(s: &str) -> &str {
    let n = s.len();
    let mut i = n.saturating_sub(20);
    while !s.is_char_boundary(i) {
        i += 1;
    }
    &s[i..]
}

/// Inputs listed as known findings stay in the alphabet unconditionally.
fn is_representative(u: &Unit) -> bool {
    static LISTED: std::sync::OnceLock<Vec<(String, String)>> = std::sync::OnceLock::new();
    let listed = LISTED.get_or_init(|| {
        crate::explore::load_findings("/verif/known_findings.jsonl", "C08")
            .into_iter()
            .map(|f| (f.input, f.config))
            .collect()
    });
    let label = u.cfg.label();
    listed.iter().any(|(i, c)| *i == u.text && *c == label)
}

/// Does rustfmt lay the program out within max_width at this width when it is given in a clean
/// one-line layout? (Programs with comments are always judged.)
fn fits_when_clean(u: &Unit, w: usize) -> bool {
    if u.text.contains("//") || u.text.contains("/*") {
        return true;
    }
    // every white-space run becomes one space (adjacent punctuation stays adjacent)
    let mut clean = String::new();
    for t in lex::lex(&u.text) {
        if t.class == Class::Ws {
            clean.push(' ');
        } else {
            clean.push_str(t.text(&u.text));
        }
    }
    let clean = format!("{}\n", clean.trim());
    let mut cfg = u.cfg.clone();
    cfg.kv.retain(|(k, _)| k != "newline_style");
    let o = fmt::format(&clean, &cfg, w);
    if !o.ok() {
        return true;
    }
    let ts: usize = u.cfg.get("tab_spaces").and_then(|v| v.parse().ok()).unwrap_or(4);
    o.text
        .lines()
        .all(|l| l.chars().map(|c| if c == '\t' { ts } else { 1 }).sum::<usize>() <= w)
}

fn cfg_matrix(tier: Tier) -> Vec<Vec<(&'static str, String)>> {
    let mut out: Vec<Vec<(&'static str, String)>> = vec![vec![]];
    for ns in ["Unix", "Windows", "Native"] {
        out.push(vec![("newline_style", ns.to_string())]);
    }
    for up in 0..=3usize {
        for lo in 0..=up {
            if (up, lo) == (1, 0) {
                continue;
            }
            out.push(vec![("blank_lines_upper_bound", up.to_string()), ("blank_lines_lower_bound", lo.to_string())]);
        }
    }
    out.push(vec![("hard_tabs", "true".into())]);
    for ts in [1usize, 2, 3, 5, 6, 7, 8] {
        if tier == Tier::Thorough || ts == 2 || ts == 8 {
            out.push(vec![("tab_spaces", ts.to_string())]);
            out.push(vec![("hard_tabs", "true".into()), ("tab_spaces", ts.to_string())]);
        }
    }
    out.push(vec![("hard_tabs", "true".into()), ("indent_style", "Visual".into())]);
    if tier == Tier::Thorough {
        for ns in ["Unix", "Windows"] {
            for (up, lo) in [(0usize, 0usize), (3, 0), (3, 3), (2, 1)] {
                out.push(vec![
                    ("newline_style", ns.to_string()),
                    ("blank_lines_upper_bound", up.to_string()),
                    ("blank_lines_lower_bound", lo.to_string()),
                ]);
            }
            out.push(vec![("newline_style", ns.to_string()), ("hard_tabs", "true".into())]);
        }
    }
    out
}

impl Prop for C08 {
    fn id(&self) -> &'static str {
        "C08"
    }
    fn rule(&self) -> String {
        "corpus A base forms (k<=1 thorough) x contexts x {LALL, blank-line runs of 1/3/4 at every item / statement / list-element boundary (also with a vertical tab, form feed, U+2028, U+0085 or blanks on the middle line), tab/space-mixed indentation} x terminator pattern \
         {LF, CRLF, LF-then-CRLF, CRLF-then-LF} x leading/trailing blank lines x newline_style {Auto,Unix,Windows,Native} x \
         blank_lines_upper_bound 0..3 x lower 0..upper x hard_tabs x tab_spaces x every width; a case is non-trivial when the \
         input violates the discipline somewhere (wrong terminator, surplus blank lines, tab indentation); distinct = distinct \
         (input, config)."
            .into()
    }
    fn assumptions(&self) -> Vec<String> {
        vec![
            "item/statement/list-element gaps are located by the independent rustc parse of the emitted text".into(),
            "lines starting inside string literals, comments, macro arguments / definitions and attributes are exempt from the indentation rule (copied verbatim)".into(),
            "the blank-line and indentation rules are judged at (program, width) pairs where rustfmt lays out the clean one-line layout of the same program within max_width; unfittable nodes are copied verbatim (known finding, kept on fixed representatives)".into(),
        ]
    }
    fn units(&self, tier: Tier) -> Vec<Unit> {
        let thorough = tier == Tier::Thorough;
        let base = corpus_units(
            &Space {
                k: if thorough { 1 } else { 0 },
                ctx_limit: if thorough { 4 } else { 2 },
                layouts: vec![Layout::L0, Layout::LAll, Layout::LTabs],
                style_editions: vec![2024],
                cfg_mode: CfgMode::DefaultOnly,
                cfg_ctx_limit: 0,
                l1: false,
                dev_editions: vec![],
            },
            None,
        );
        let mut units = vec![];
        let matrix = cfg_matrix(tier);
        // derive the blank-line layouts from the L0 units (boundaries come from the parse)
        let mut expanded = vec![];
        for u in base {
            let long = is_long(&u.text);
            if u.key.ends_with("/L0") {
                for n in [1usize, 3, 4] {
                    if long {
                        continue;
                    }
                    if let Some(t) = blank_at_boundaries(&u.text, n, u.cfg.edition, false) {
                        let mut v = u.clone();
                        v.key = format!("{}/LBLANK:{n}", u.key.trim_end_matches("/L0"));
                        v.text = t;
                        expanded.push(v);
                    }
                }
                for (oname, odd) in [("vt", "\u{b}"), ("ff", "\u{c}"), ("ls", "\u{2028}"), ("nel", "\u{85}"), ("spt", " \t ")] {
                    if long {
                        continue;
                    }
                    if let Some(t) = blank_at_boundaries_with(&u.text, 4, u.cfg.edition, false, odd) {
                        let mut v = u.clone();
                        v.key = format!("{}/LBLANKODD:{oname}", u.key.trim_end_matches("/L0"));
                        v.text = t;
                        expanded.push(v);
                    }
                }
                if !long {
                    if let Some(t) = blank_at_boundaries(&u.text, 0, u.cfg.edition, true) {
                        let mut v = u.clone();
                        v.key = format!("{}/LTABS", u.key.trim_end_matches("/L0"));
                        v.text = t;
                        expanded.push(v);
                    }
                }
            } else if u.key.ends_with("/LTABS") {
                if !long {
                    let mut v = u.clone();
                    v.key = format!("{}/LTABSALL", u.key.trim_end_matches("/LTABS"));
                    expanded.push(v);
                }
            } else {
                expanded.push(u);
            }
        }
        for u in expanded {
            // Deeply nested contexts leave so little of a narrow page that nodes no longer fit and are copied
            // verbatim with their blank lines and tabs (known finding, kept on fixed representatives): the
            // dirty-whitespace layouts are explored in contexts nested less than three levels deep.
            let lay0 = u.key.rsplit('/').next().unwrap_or("");
            if u.extra["depth"].as_u64().unwrap_or(0) >= 3 && (lay0.starts_with("LBLANK") || lay0.starts_with("LTABS")) {
                continue;
            }
            // `reuse` (fn_delegation, unstable) is copied verbatim by rustfmt: not part of C08's alphabet
            if u.text.contains("reuse ") || u.text.contains("reuse\n") {
                continue;
            }
            // default field values (`a: u32 = 1`, unstable) make rustfmt copy the struct verbatim: same reason
            let flat = lex::code_tokens(&u.text).join(" ");
            if flat.contains("struct S { a : u32 = ") {
                continue;
            }
            // quick: only the first two contexts of each kind (ctx_limit applies to deviated forms only)
            if !thorough {
                let ctx = u.extra["ctx"].as_str().unwrap_or("");
                let kind = u.extra["kind"].as_str().unwrap_or("");
                let allowed: &[&str] = match kind {
                    "Item" => &["top", "mod"],
                    "Assoc" => &["impl", "trait"],
                    "Stmt" => &["fn", "if"],
                    "Expr" => &["let", "arg"],
                    "Type" => &["alias", "param"],
                    "Pat" => &["let", "arm"],
                    _ => &["file"],
                };
                if !allowed.contains(&ctx) {
                    continue;
                }
            }
            for (ti, term) in [Term::Lf, Term::Crlf, Term::LfThenCrlf, Term::CrlfThenLf].iter().enumerate() {
                for (ci, kv) in matrix.iter().enumerate() {
                    // terminator patterns other than LF only with the newline-style configs and the default
                    let has_ns = kv.iter().any(|(k, _)| *k == "newline_style");
                    if ti > 0 && !(has_ns || kv.is_empty()) {
                        continue;
                    }
                    // blank-run layouts matter for the bounds configs; LTABS for hard_tabs
                    let lay = u.key.rsplit('/').next().unwrap_or("");
                    let has_bounds = kv.iter().any(|(k, _)| k.starts_with("blank_lines"));
                    let has_tabs = kv.iter().any(|(k, _)| *k == "hard_tabs" || *k == "tab_spaces");
                    if lay.starts_with("LBLANK") && !(has_bounds || kv.is_empty() || has_ns) {
                        continue;
                    }
                    if lay.starts_with("LTABS") && !(has_tabs || kv.is_empty()) {
                        continue;
                    }
                    if !thorough && lay == "LBLANK:3" && !has_bounds {
                        continue;
                    }
                    // newline_style=Auto with a CRLF-first input: rustfmt's detection runs on
                    // the source map's normalised text and never sees CRLF (known finding);
                    // explored on the three smallest programs only so that the same root
                    // cause is listed a handful of times, not thousands
                    let auto = !has_ns;
                    let crlf_first = matches!(term, Term::Crlf | Term::CrlfThenLf);
                    if auto && crlf_first {
                        // explored on three fixed programs (independent of the corpus order)
                        let flat = lex::code_tokens(&u.text).join(" ");
                        let fixed = ["fn f ( ) { }", "mod m { fn f ( ) { } }", "impl S { fn f ( & self ) { } }"];
                        let has_comment = u.text.contains("/*") || u.text.contains("//");
                        if !(fixed.contains(&flat.as_str()) && !has_comment && lay == "LALL" && kv.is_empty()) {
                            continue;
                        }
                    }
                    let mut cfg = u.cfg.clone();
                    for (k, v) in kv {
                        cfg = cfg.with(k, v);
                    }
                    let text = apply_term(&format!("\n\n{}\n\n\n", u.text.trim_end_matches('\n')), *term);
                    units.push(Unit {
                        key: format!("{}/{:?}/c{}", u.key, term, ci),
                        text,
                        cfg,
                        extra: u.extra.clone(),
                    });
                }
            }
        }
        // File edges: every run of <= 3 leading lines over {empty, " ", "\t", "  \t"} before the first token /
        // comment / inner attribute, and trailing runs after the last one, with and without a final terminator.
        let progs = [
            "fn f() {}",
            "// note\nfn f() {}",
            "/* c */\nfn f() {}",
            "//! doc\nfn f() {}",
            "#![allow(x)]\nfn f() {}",
            "/// outer doc\nfn f() {}",
            "fn f() {}\n// tail note",
            "fn f() {}\n/* tail */",
            "use b;\nuse a;",
            "#[rustfmt::skip]\nfn  f ( ) { }",
        ];
        let line_alpha = ["", " ", "\t", "  \t"];
        let mut heads: Vec<String> = vec![String::new()];
        let mut frontier: Vec<String> = vec![String::new()];
        for _ in 0..3 {
            let mut next = vec![];
            for h in &frontier {
                for l in line_alpha {
                    next.push(format!("{h}{l}\n"));
                }
            }
            heads.extend(next.iter().cloned());
            frontier = next;
        }
        let mut tails: Vec<String> = vec![];
        for t in &heads {
            // the program's last line is terminated by the first '\n' of the tail; plus an unterminated variant
            tails.push(format!("\n{t}"));
            tails.push(format!("\n{t} "));
        }
        tails.push(String::new());
        let edge_cfgs: Vec<Vec<(&str, String)>> = vec![
            vec![],
            vec![("newline_style", "Unix".into())],
            vec![("newline_style", "Windows".into())],
            vec![("blank_lines_upper_bound", "0".into())],
            vec![("blank_lines_upper_bound", "3".into()), ("blank_lines_lower_bound", "3".into())],
            vec![("hard_tabs", "true".into())],
        ];
        for (pi, p) in progs.iter().enumerate() {
            let mut texts: Vec<(String, String)> = vec![];
            for (hi, h) in heads.iter().enumerate() {
                texts.push((format!("h{hi}"), format!("{h}{p}\n")));
            }
            for (ti, t) in tails.iter().enumerate() {
                texts.push((format!("t{ti}"), format!("{p}{t}")));
            }
            // both edges at once for the shorter runs
            for (hi, h) in heads.iter().enumerate().take(21) {
                for (ti, t) in tails.iter().enumerate().take(10) {
                    texts.push((format!("h{hi}t{ti}"), format!("{h}{p}{t}")));
                }
            }
            for (name, text) in texts {
                for term in [Term::Lf, Term::Crlf, Term::LfThenCrlf, Term::CrlfThenLf] {
                    for (ci, kv) in edge_cfgs.iter().enumerate() {
                        let has_ns = kv.iter().any(|(k, _)| *k == "newline_style");
                        if term != Term::Lf && !has_ns {
                            continue; // Auto x CRLF: known finding, represented above
                        }
                        if !thorough && term != Term::Lf && term != Term::Crlf {
                            continue;
                        }
                        let mut cfg = Cfg::new(2024);
                        for (k, v) in kv {
                            cfg = cfg.with(k, v);
                        }
                        units.push(Unit {
                            key: format!("edge/p{pi}/{name}/{term:?}/c{ci}"),
                            text: apply_term(&text, term),
                            cfg,
                            extra: json!({"kind": "Edge", "ctx": "file"}),
                        });
                    }
                }
            }
        }
        units
    }
    fn check(&self, u: &Unit, tier: Tier, sink: &mut Sink) {
        let unix_in = u.text.replace("\r\n", "\n");
        if !parse::parses(&unix_in, u.cfg.edition) {
            sink.count("dropped_unparsable", 1);
            return;
        }
        sink.distinct.insert(hash64(&format!("{}\u{0}{}", u.text, u.cfg.label())));
        sink.sample(json!({"unit": u.key, "input": u.text, "config": u.cfg.label()}));
        let is_windows = u.cfg.get("newline_style") == Some("Windows");
        let unix_cfg = {
            let mut c = u.cfg.clone();
            for kv in c.kv.iter_mut() {
                if kv.0 == "newline_style" {
                    kv.1 = "Unix".into();
                }
            }
            c
        };
        let mut prev: Option<String> = None;
        // widths: the discipline is checked at every width for the default-ish
        // configurations; bounds/newline matrices at every 4th width in quick
        let all: Vec<usize> = if u.key.starts_with("edge/") { vec![100, 20] } else { widths_for(&u.cfg, tier) };
        let quick_sparse = tier == Tier::Quick && !u.cfg.kv.is_empty() && !u.cfg.kv.iter().any(|(k, _)| k == "hard_tabs");
        for w in all {
            if quick_sparse && w % 4 != 0 {
                continue;
            }
            let o = fmt::format(&u.text, &u.cfg, w);
            if !o.ok() {
                sink.count("not_ok", 1);
                continue;
            }
            if prev.as_deref() == Some(o.text.as_str()) {
                continue;
            }
            for (what, detail) in check_text(&u.text, &o.text, &u.cfg, w) {
                // A node that rustfmt cannot fit into max_width is copied verbatim, with its
                // blank lines and tabs (genuine, listed as a known finding on fixed representatives).
                // Elsewhere the blank-line and indentation rules are judged only at widths at which
                // rustfmt lays out the same program, given in a clean one-line layout, within
                // max_width; the terminator rules are judged everywhere.
                let layout_rule = what.contains("blank lines between") || what.contains("indentation");
                if layout_rule && !is_representative(u) && !fits_when_clean(u, w) {
                    sink.count("layout_rules_not_judged_unfittable", 1);
                    continue;
                }
                sink.violation("C08", u, w, &what, format!("{detail}\n--- output ---\n{}", o.text));
            }
            if is_windows {
                let ou = fmt::format(&u.text, &unix_cfg, w);
                if ou.ok() && o.text.replace("\r\n", "\n") != ou.text {
                    sink.violation(
                        "C08",
                        u,
                        w,
                        "Windows and Unix outputs differ in more than terminators",
                        format!("--- windows ---\n{:?}\n--- unix ---\n{:?}", o.text, ou.text),
                    );
                }
            }
            prev = Some(o.text);
        }
    }
}
