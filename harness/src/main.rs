#![feature(rustc_private)]
#![allow(clippy::too_many_arguments)]

extern crate rustc_ast;
extern crate rustc_ast_pretty;
extern crate rustc_data_structures;
extern crate rustc_driver;
extern crate rustc_errors;
extern crate rustc_lexer;
extern crate rustc_parse;
extern crate rustc_session;
extern crate rustc_span;
extern crate smallvec;
extern crate thin_vec;

mod canon;
mod configs;
mod explore;
mod fmt;
mod gen;
mod lex;
mod parse;
mod positions;
mod props;
mod usetree;

use std::collections::BTreeSet;

use explore::Tier;

const VERIF_ROOT: &str = "/verif";

fn usage() -> ! {
    eprintln!(
        "usage: vh run <PROP> <quick|thorough> [--propose FILE]\n       vh worker <PROP> <tier> <shard> <nshards> <skip> <after>\n       vh replay <file>\n       vh fmt <width> [k=v ...] < input\n       vh units <PROP> <tier>"
    );
    std::process::exit(2)
}

fn tier_of(s: &str) -> Tier {
    match s {
        "quick" => Tier::Quick,
        "thorough" => Tier::Thorough,
        _ => usage(),
    }
}

fn find_prop(id: &str) -> Box<dyn explore::Prop> {
    for p in props::all() {
        if p.id() == id {
            return p;
        }
    }
    eprintln!("unknown property {id}");
    std::process::exit(2)
}

fn main() {
    let args: Vec<String> = std::env::args().collect();
    if args.len() < 2 {
        usage();
    }
    match args[1].as_str() {
        "worker" => {
            let prop = find_prop(&args[2]);
            let tier = tier_of(&args[3]);
            let shard: usize = args[4].parse().unwrap();
            let n: usize = args[5].parse().unwrap();
            let skip: BTreeSet<usize> = args
                .get(6)
                .map(|s| s.split(',').filter_map(|x| x.parse().ok()).collect())
                .unwrap_or_default();
            let after: Option<usize> = args.get(7).and_then(|s| s.parse().ok());
            explore::worker(prop.as_ref(), tier, shard, n, &skip, after);
        }
        "run" => {
            let prop = find_prop(&args[2]);
            let tier = tier_of(args.get(3).map(|s| s.as_str()).unwrap_or("quick"));
            let propose = args
                .iter()
                .position(|a| a == "--propose")
                .and_then(|i| args.get(i + 1))
                .cloned();
            let nshards = std::env::var("VERIF_JOBS")
                .ok()
                .and_then(|s| s.parse().ok())
                .unwrap_or_else(|| std::thread::available_parallelism().map(|n| n.get()).unwrap_or(8));
            // the master generates the units once and hands each worker its share through a file
            let shard_dir = format!("{VERIF_ROOT}/.build/shards/{}-{}-{}", prop.id(), tier.name(), std::process::id());
            let nunits = {
                let units = prop.units(tier);
                explore::write_shards(&units, nshards, &shard_dir).expect("write shard files");
                units.len()
            };
            eprintln!("[vh] {} {}: {} units on {} workers", prop.id(), tier.name(), nunits, nshards);
            let res = explore::run_sharded(prop.id(), tier, nshards, nunits, Some(&shard_dir));
            let _ = std::fs::remove_dir_all(&shard_dir);
            let findings = explore::load_findings(&format!("{VERIF_ROOT}/known_findings.jsonl"), prop.id());
            // clear stale replay files of this property
            let _ = std::fs::remove_dir_all(format!("{VERIF_ROOT}/replay/{}", prop.id()));
            let (new, known_hits, proposals) = explore::report(prop.id(), &res.violations, &findings, VERIF_ROOT);
            if let Some(p) = propose {
                let mut s = String::new();
                for v in &proposals {
                    s.push_str(&serde_json::to_string(v).unwrap());
                    s.push('\n');
                }
                std::fs::write(&p, s).unwrap();
            }
            let machinery_failure = res.crashed_units.contains(&usize::MAX);
            // a worker that died on a unit: that is a C16 observation; for any
            // property it is reported (never silently dropped)
            let mut crash_violations = 0;
            if !res.crashed_units.is_empty() && !machinery_failure {
                let units = prop.units(tier);
                for &i in &res.crashed_units {
                    if let Some(u) = units.get(i) {
                        let known = findings.iter().any(|f| f.input == u.text && f.config == u.cfg.label() && f.what == "worker died");
                        if known {
                            println!("KNOWN-FINDING: property={} worker died input={:?}", prop.id(), explore::shorten(&u.text, 70));
                            continue;
                        }
                        crash_violations += 1;
                        let h = explore::hash64(&format!("{}\u{0}{}\u{0}died", u.text, u.cfg.label()));
                        let dir = format!("{VERIF_ROOT}/replay/{}", prop.id());
                        let _ = std::fs::create_dir_all(&dir);
                        let path = format!("{dir}/{h:016x}.json");
                        let _ = std::fs::write(
                            &path,
                            serde_json::to_string_pretty(&serde_json::json!({
                                "property": prop.id(), "unit": u.key, "input": u.text, "config": u.cfg.label(),
                                "what": "worker died", "widths": [], "detail": "worker subprocess died (abort / stack overflow / signal) while checking this unit"
                            }))
                            .unwrap(),
                        );
                        if prop.id() == "C16" {
                            println!("VIOLATION property=C16 replay={path}");
                        } else {
                            eprintln!("[vh] worker died on unit {} (see {path}); no verdict for it", u.key);
                        }
                    }
                }
            }
            let nontrivial = res.distinct.len() as u64;
            explore::write_evidence(
                VERIF_ROOT,
                prop.as_ref(),
                tier,
                &res,
                nunits,
                new + if prop.id() == "C16" { crash_violations } else { 0 },
                known_hits,
                serde_json::json!({}),
            );
            eprintln!(
                "[vh] {} {}: units={} format_calls={} nontrivial={} violations={} known={} wall={:.1}s",
                prop.id(),
                tier.name(),
                nunits,
                res.counters.get("format_calls").copied().unwrap_or(0),
                nontrivial,
                new,
                known_hits,
                res.wall
            );
            if machinery_failure {
                eprintln!("[vh] a worker died before starting any unit: machinery failure");
                std::process::exit(2);
            }
            if new > 0 || (prop.id() == "C16" && crash_violations > 0) {
                std::process::exit(1);
            }
            if nontrivial < prop.min_nontrivial(tier) {
                eprintln!("[vh] vacuous run: only {nontrivial} distinct non-trivial cases");
                std::process::exit(2);
            }
        }
        "units" => {
            let prop = find_prop(&args[2]);
            let tier = tier_of(&args[3]);
            for (i, u) in prop.units(tier).iter().enumerate() {
                if std::env::var("VERIF_UNITS_FULL").is_ok() {
                    println!("{i}\t{}\t{}\t{}", u.key, u.cfg.label(), serde_json::to_string(&u.text).unwrap());
                } else {
                    println!("{i}\t{}\t{}\t{:?}", u.key, u.cfg.label(), explore::shorten(&u.text, 100));
                }
            }
        }
        "replay" => {
            let s = std::fs::read_to_string(&args[2]).expect("read replay file");
            let v: serde_json::Value = serde_json::from_str(&s).expect("json");
            let prop = find_prop(v["property"].as_str().unwrap());
            let input = v["input"].as_str().unwrap().to_string();
            let cfg = parse_cfg_label(v["config"].as_str().unwrap());
            let unit = explore::Unit {
                key: v["unit"].as_str().unwrap_or("replay").to_string(),
                text: input.clone(),
                cfg,
                extra: serde_json::json!({"replay": true}),
            };
            fmt::install_panic_hook();
            println!("property {}  config {:?}", prop.id(), unit.cfg.label());
            println!("--- input ---\n{input}");
            for w in v["widths"].as_array().cloned().unwrap_or_default().iter().take(3) {
                let w = w.as_u64().unwrap() as usize;
                let out = fmt::format(&input, &unit.cfg, w);
                println!("--- width {w}: status {:?} entries {:?} ---\n{}", out.status, out.entries, out.text);
            }
            println!("--- recorded detail ---\n{}", v["detail"].as_str().unwrap_or(""));
        }
        "canon" => {
            // vh canon [k=v ...] < input : print the canonical token list
            let mut cfg = fmt::Cfg::new(2015);
            for kv in &args[2..] {
                let (k, v) = kv.split_once('=').unwrap();
                match k {
                    "edition" => cfg.edition = v.parse().unwrap(),
                    _ => cfg.kv.push((k.to_string(), v.to_string())),
                }
            }
            let mut input = String::new();
            std::io::Read::read_to_string(&mut std::io::stdin(), &mut input).unwrap();
            fmt::install_panic_hook();
            match canon::canon(&input, cfg.edition, &canon::Opts::from_cfg(&cfg)) {
                Ok(c) => {
                    println!("{}", c.tokens.join(" "));
                    println!("use runs: {:?}", c.use_runs);
                }
                Err(e) => println!("ERROR {e}"),
            }
        }
        "fmt" => {
            let w: usize = args[2].parse().unwrap();
            let mut cfg = fmt::Cfg::new(2015);
            for kv in &args[3..] {
                let (k, v) = kv.split_once('=').unwrap();
                match k {
                    "style_edition" => cfg.style_edition = v.parse().unwrap(),
                    "edition" => cfg.edition = v.parse().unwrap(),
                    _ => cfg.kv.push((k.to_string(), v.to_string())),
                }
            }
            let mut input = String::new();
            std::io::Read::read_to_string(&mut std::io::stdin(), &mut input).unwrap();
            fmt::install_panic_hook();
            let out = fmt::format(&input, &cfg, w);
            eprintln!("status={:?} entries={:?} flags={:?}", out.status, out.entries, out.flags);
            print!("{}", out.text);
        }
        _ => usage(),
    }
}

pub fn parse_cfg_label(s: &str) -> fmt::Cfg {
    // "se2015/e2021 k=v k=v"
    let mut it = s.split(' ');
    let head = it.next().unwrap();
    let (se, e) = head.split_once('/').unwrap();
    let mut cfg = fmt::Cfg::new(se.trim_start_matches("se").parse().unwrap());
    cfg.edition = e.trim_start_matches('e').parse().unwrap();
    for kv in it {
        if let Some((k, v)) = kv.split_once('=') {
            cfg.kv.push((k.to_string(), v.to_string()));
        }
    }
    cfg
}
