//! Lexing with `rustc_lexer` (independent of rustfmt's own `CharClasses`).

use rustc_lexer::{LiteralKind, TokenKind};

#[derive(Debug, Clone, Copy, PartialEq, Eq)]
pub enum Class {
    Ws,
    /// non-doc comment
    Comment,
    /// doc comment (`///`, `//!`, `/** */`, `/*! */`)
    DocComment,
    /// identifier-like: ident, raw ident, keyword, lifetime, literal
    Word,
    /// `( ) [ ] { }`
    Open,
    Close,
    /// `,` `;`
    Sep,
    /// any other punctuation character
    Punct,
    Unknown,
}

#[derive(Debug, Clone, Copy)]
pub struct Tok {
    pub kind: TokenKind,
    pub class: Class,
    pub start: usize,
    pub end: usize,
}

impl Tok {
    pub fn text<'a>(&self, src: &'a str) -> &'a str {
        &src[self.start..self.end]
    }
    pub fn is_trivia(&self) -> bool {
        matches!(self.class, Class::Ws | Class::Comment)
    }
    pub fn is_str_lit(&self) -> bool {
        matches!(
            self.kind,
            TokenKind::Literal {
                kind: LiteralKind::Str { .. }
                    | LiteralKind::ByteStr { .. }
                    | LiteralKind::CStr { .. }
                    | LiteralKind::RawStr { .. }
                    | LiteralKind::RawByteStr { .. }
                    | LiteralKind::RawCStr { .. },
                ..
            }
        )
    }
}

pub fn classify(k: TokenKind) -> Class {
    use TokenKind::*;
    match k {
        Whitespace => Class::Ws,
        LineComment { doc_style: None } | BlockComment { doc_style: None, .. } => Class::Comment,
        LineComment { .. } | BlockComment { .. } => Class::DocComment,
        Ident | RawIdent | Literal { .. } | Lifetime { .. } | RawLifetime | InvalidIdent
        | UnknownPrefix | UnknownPrefixLifetime | GuardedStrPrefix => Class::Word,
        OpenParen | OpenBrace | OpenBracket => Class::Open,
        CloseParen | CloseBrace | CloseBracket => Class::Close,
        Semi | Comma => Class::Sep,
        Unknown | Eof => Class::Unknown,
        _ => Class::Punct,
    }
}

pub fn lex(src: &str) -> Vec<Tok> {
    let mut pos = 0usize;
    let mut out = Vec::new();
    for t in rustc_lexer::tokenize(src) {
        let len = t.len as usize;
        out.push(Tok {
            kind: t.kind,
            class: classify(t.kind),
            start: pos,
            end: pos + len,
        });
        pos += len;
    }
    out
}

/// True if every token is well-formed (terminated comments / literals, no unknown chars).
pub fn lex_clean(src: &str) -> bool {
    for t in rustc_lexer::tokenize(src) {
        match t.kind {
            TokenKind::Unknown | TokenKind::InvalidIdent => return false,
            TokenKind::BlockComment { terminated: false, .. } => return false,
            TokenKind::Literal { kind, .. } => match kind {
                LiteralKind::Char { terminated: false }
                | LiteralKind::Byte { terminated: false }
                | LiteralKind::Str { terminated: false }
                | LiteralKind::ByteStr { terminated: false }
                | LiteralKind::CStr { terminated: false } => return false,
                LiteralKind::RawStr { n_hashes: None }
                | LiteralKind::RawByteStr { n_hashes: None }
                | LiteralKind::RawCStr { n_hashes: None } => return false,
                _ => {}
            },
            _ => {}
        }
    }
    true
}

/// Non-doc comments of `src`, in order, as raw text.
pub fn comments(src: &str) -> Vec<String> {
    lex(src)
        .into_iter()
        .filter(|t| t.class == Class::Comment)
        .map(|t| t.text(src).to_string())
        .collect()
}

/// Normal form of one comment for the C03 comparison: each line trimmed on
/// both sides (re-indentation, trailing blanks), CR removed, empty
/// leading/trailing lines of a block comment kept.
pub fn normalize_comment(c: &str) -> String {
    let c = c.replace("\r\n", "\n");
    let lines: Vec<&str> = c.split('\n').map(|l| l.trim()).collect();
    lines.join("\n").trim().to_string()
}

/// Words of a comment with the comment markers removed (for wrap_comments /
/// normalize_comments): `//`, `/*`, `*/`, leading `*` of continuation lines.
pub fn comment_words(c: &str) -> Vec<String> {
    // CRLF is a line terminator; a lone carriage return is white space between two words
    let c = c.replace("\r\n", "\n").replace('\r', " ");
    let mut body = String::new();
    if let Some(rest) = c.strip_prefix("//") {
        // `////` comments: the extra slashes are part of the opener that re-flowing repeats on every line
        body.push_str(rest.trim_start_matches('/'));
    } else if let Some(rest) = c.strip_prefix("/*") {
        let rest = rest.strip_suffix("*/").unwrap_or(rest);
        for (i, l) in rest.split('\n').enumerate() {
            let l = l.trim();
            let l = if i > 0 {
                l.strip_prefix('*').unwrap_or(l)
            } else {
                l
            };
            body.push_str(l);
            body.push('\n');
        }
    } else {
        body.push_str(&c);
    }
    body.split_whitespace().map(|s| s.to_string()).collect()
}

/// Code tokens (no whitespace, no non-doc comments) as text.
pub fn code_tokens(src: &str) -> Vec<String> {
    lex(src)
        .into_iter()
        .filter(|t| !t.is_trivia())
        .map(|t| t.text(src).to_string())
        .collect()
}
