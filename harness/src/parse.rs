//! Independent parse of a text with `rustc_parse` (silent diagnostics).
//! Everything that touches the AST runs inside the closure, because symbols
//! and spans are tied to the session globals created here.

use std::panic::{self, AssertUnwindSafe};

use rustc_ast::ast;
use rustc_session::parse::ParseSess;
use rustc_span::edition::Edition as REdition;

pub fn redition(y: u16) -> REdition {
    match y {
        2015 => REdition::Edition2015,
        2018 => REdition::Edition2018,
        2021 => REdition::Edition2021,
        _ => REdition::Edition2024,
    }
}

pub fn silent_psess() -> ParseSess {
    ParseSess::with_silent_emitter(
        rustc_driver::DEFAULT_LOCALE_RESOURCES.to_vec(),
        String::new(),
        false,
    )
}

/// Run `f` inside fresh session globals for `edition`.
pub fn with_globals<R>(edition: u16, f: impl FnOnce() -> R) -> R {
    rustc_span::create_session_globals_then(redition(edition), None, f)
}

/// Parse `src` as a crate inside already-created session globals.
pub fn parse_crate_in(psess: &ParseSess, src: &str) -> Result<ast::Crate, String> {
    let res = panic::catch_unwind(AssertUnwindSafe(|| {
        let parser = rustc_parse::new_parser_from_source_str(
            psess,
            rustc_span::FileName::Custom("oracle".to_owned()),
            src.to_string(),
        );
        let mut parser = match parser {
            Ok(p) => p,
            Err(diags) => {
                for d in diags {
                    d.cancel();
                }
                return Err("lexer error".to_string());
            }
        };
        match parser.parse_crate_mod() {
            Ok(k) => {
                if psess.dcx().err_count() > 0 {
                    Err("recovered parse error".to_string())
                } else {
                    Ok(k)
                }
            }
            Err(d) => {
                d.cancel();
                Err("parse error".to_string())
            }
        }
    }));
    match res {
        Ok(r) => r,
        Err(_) => Err("parser panic".to_string()),
    }
}

/// Parse `src` under `edition` and hand the crate to `f`.
pub fn with_crate<R>(
    src: &str,
    edition: u16,
    f: impl FnOnce(&ast::Crate, &ParseSess) -> R,
) -> Result<R, String> {
    with_globals(edition, || {
        let psess = silent_psess();
        let krate = parse_crate_in(&psess, src)?;
        Ok(f(&krate, &psess))
    })
}

pub fn parses(src: &str, edition: u16) -> bool {
    with_crate(src, edition, |_, _| ()).is_ok()
}
