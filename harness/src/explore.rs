//! Enumeration engine: units of work, sharding into worker subprocesses,
//! crash containment, known findings, replay files, evidence.

use std::collections::{BTreeMap, BTreeSet};
use std::io::{BufRead, BufReader, Write};
use std::process::{Command, Stdio};
use std::time::Instant;

use serde::{Deserialize, Serialize};
use serde_json::{json, Value};

use crate::fmt::Cfg;

#[derive(Debug, Clone, Copy, PartialEq, Eq)]
pub enum Tier {
    Quick,
    Thorough,
}

impl Tier {
    pub fn name(&self) -> &'static str {
        match self {
            Tier::Quick => "quick",
            Tier::Thorough => "thorough",
        }
    }
    pub fn widths(&self) -> Vec<usize> {
        match self {
            Tier::Quick => (20..=120).collect(),
            Tier::Thorough => (20..=200).collect(),
        }
    }
}

/// One unit of work: an input text under one configuration; the width sweep
/// (and whatever else the property enumerates) happens inside `check`.
#[derive(Debug, Clone, Serialize, Deserialize)]
pub struct Unit {
    /// stable, human-readable identity (program key, layout, comments)
    pub key: String,
    pub text: String,
    pub cfg: Cfg,
    /// property-specific payload
    #[serde(default)]
    pub extra: Value,
}

#[derive(Debug, Clone, Serialize, Deserialize, PartialEq, Eq, PartialOrd, Ord)]
pub struct Violation {
    pub property: String,
    pub unit: String,
    pub input: String,
    pub config: String,
    /// short class of the failure ("not idempotent", "panic", ...)
    pub what: String,
    pub width: usize,
    /// free-form detail (outputs, diff, panic message)
    pub detail: String,
}

#[derive(Default)]
pub struct Sink {
    pub violations: Vec<Violation>,
    pub counters: BTreeMap<String, u64>,
    pub samples: Vec<Value>,
    pub distinct: BTreeSet<u64>,
}

impl Sink {
    pub fn count(&mut self, k: &str, n: u64) {
        *self.counters.entry(k.to_string()).or_insert(0) += n;
    }
    pub fn sample(&mut self, v: Value) {
        if self.samples.len() < 3 {
            self.samples.push(v);
        }
    }
    pub fn violation(&mut self, prop: &str, u: &Unit, width: usize, what: &str, detail: String) {
        self.violations.push(Violation {
            property: prop.to_string(),
            unit: u.key.clone(),
            input: u.text.clone(),
            config: u.cfg.label(),
            what: what.to_string(),
            width,
            detail,
        });
    }
}

pub fn hash64(s: &str) -> u64 {
    // FNV-1a, stable across runs and builds
    let mut h: u64 = 0xcbf29ce484222325;
    for b in s.as_bytes() {
        h ^= *b as u64;
        h = h.wrapping_mul(0x100000001b3);
    }
    h
}

pub trait Prop: Sync {
    fn id(&self) -> &'static str;
    fn level(&self) -> &'static str {
        "exploration"
    }
    fn units(&self, tier: Tier) -> Vec<Unit>;
    fn check(&self, u: &Unit, tier: Tier, sink: &mut Sink);
    fn rule(&self) -> String;
    fn assumptions(&self) -> Vec<String> {
        vec![]
    }
    /// exhaustive within the stated alphabet and bounds?
    fn exhaustive(&self, _tier: Tier) -> bool {
        true
    }
    /// fail (exit 2) when fewer than this many distinct non-trivial cases were seen
    fn min_nontrivial(&self, _tier: Tier) -> u64 {
        2
    }
}

// ------------------------------------------------------------ worker side

static WATCHDOG_FD: std::sync::atomic::AtomicI32 = std::sync::atomic::AtomicI32::new(1);

pub fn worker(
    prop: &dyn Prop,
    tier: Tier,
    shard: usize,
    nshards: usize,
    skip: &BTreeSet<usize>,
    after: Option<usize>,
) {
    crate::fmt::install_panic_hook();
    limit_memory(6 << 30);
    // Units come from the shard file written by the master (one JSON line per unit: the worker holds one
    // unit at a time); without one (developer use) they are generated here.
    let shard_file = std::env::var("VERIF_SHARD_DIR").ok().map(|d| format!("{d}/shard{shard}.jsonl"));
    let mut gen_units: Vec<Unit> = vec![];
    let unit_iter: Box<dyn Iterator<Item = (usize, Unit)>> = match &shard_file {
        Some(f) => {
            let rd = BufReader::new(std::fs::File::open(f).expect("open shard file"));
            Box::new(rd.lines().filter_map(|l| {
                let l = l.ok()?;
                let v: Value = serde_json::from_str(&l).ok()?;
                let i = v["i"].as_u64()? as usize;
                let u: Unit = serde_json::from_value(v["u"].clone()).ok()?;
                Some((i, u))
            }))
        }
        None => {
            gen_units = prop.units(tier);
            Box::new(std::mem::take(&mut gen_units).into_iter().enumerate())
        }
    };
    let _ = &gen_units;
    // the subject may print to the process's stdout (echo of skipped standard input, diff emitter):
    // keep the protocol on a private descriptor and send fd 1 to /dev/null
    let proto_fd = unsafe {
        let proto = libc::dup(1);
        let devnull = libc::open(b"/dev/null\0".as_ptr() as *const libc::c_char, libc::O_WRONLY);
        libc::dup2(devnull, 1);
        proto
    };
    WATCHDOG_FD.store(proto_fd, std::sync::atomic::Ordering::Relaxed);
    let mut out = unsafe {
        use std::os::fd::FromRawFd;
        std::fs::File::from_raw_fd(proto_fd)
    };
    let mut sink = Sink::default();
    // watchdog: a unit that runs longer than the limit ends the worker with a
    // "timeout" marker; the master records "no verdict (time limit)" for it.
    let progress = std::sync::Arc::new(std::sync::atomic::AtomicU64::new(0));
    {
        let progress = progress.clone();
        let limit: u64 = std::env::var("VERIF_UNIT_TIMEOUT").ok().and_then(|s| s.parse().ok()).unwrap_or(180);
        std::thread::spawn(move || {
            let mut last = (0u64, Instant::now());
            loop {
                std::thread::sleep(std::time::Duration::from_secs(1));
                let cur = progress.load(std::sync::atomic::Ordering::Relaxed);
                if cur != last.0 {
                    last = (cur, Instant::now());
                } else if cur != 0 && last.1.elapsed().as_secs() > limit {
                    let msg = format!("{}\n", json!({"t": "timeout", "i": cur - 1}));
                    unsafe {
                        libc::write(WATCHDOG_FD.load(std::sync::atomic::Ordering::Relaxed), msg.as_ptr() as *const libc::c_void, msg.len());
                    }
                    std::process::exit(3);
                }
            }
        });
    }
    for (i, u) in unit_iter {
        let u = &u;
        if i % nshards != shard || skip.contains(&i) || after.map_or(false, |a| i <= a) {
            continue;
        }
        writeln!(out, "{}", json!({"t": "b", "i": i})).unwrap();
        out.flush().unwrap();
        progress.store(i as u64 + 1, std::sync::atomic::Ordering::Relaxed);
        let t0 = Instant::now();
        let r = std::panic::catch_unwind(std::panic::AssertUnwindSafe(|| prop.check(u, tier, &mut sink)));
        if r.is_err() {
            // a panic in the harness itself (subject panics are caught inside fmt::run_format)
            writeln!(out, "{}", json!({"t": "hp", "i": i, "msg": crate::fmt::last_panic()})).unwrap();
        }
        sink.count("units", 1);
        if let Ok(p) = std::env::var("VERIF_SLOWLOG") {
            let dt = t0.elapsed().as_secs_f64();
            if dt > std::env::var("VERIF_SLOWLOG_MIN").ok().and_then(|s| s.parse().ok()).unwrap_or(1.0) {
                use std::io::Write as _;
                if let Ok(mut f) = std::fs::OpenOptions::new().create(true).append(true).open(p) {
                    let _ = writeln!(f, "{dt:.1}s\t{}\t{}", u.key, u.cfg.label());
                }
            }
        }
        for v in sink.violations.drain(..) {
            writeln!(out, "{}", json!({"t": "v", "v": v})).unwrap();
        }
    }
    sink.count(
        "format_calls",
        crate::fmt::FORMAT_CALLS.load(std::sync::atomic::Ordering::Relaxed),
    );
    writeln!(
        out,
        "{}",
        json!({"t": "c", "counters": sink.counters, "samples": sink.samples,
               "distinct": sink.distinct.iter().collect::<Vec<_>>()})
    )
    .unwrap();
    out.flush().unwrap();
}

fn limit_memory(bytes: u64) {
    unsafe {
        let lim = libc::rlimit {
            rlim_cur: bytes,
            rlim_max: bytes,
        };
        libc::setrlimit(libc::RLIMIT_AS, &lim);
    }
}

// ------------------------------------------------------------ master side

#[derive(Debug, Clone, Serialize, Deserialize)]
pub struct Finding {
    pub property: String,
    /// "known" (suppresses exactly the listed case) or "fixed" (documentation only)
    #[serde(default = "known")]
    pub status: String,
    #[serde(default)]
    pub input: String,
    #[serde(default)]
    pub config: String,
    pub what: String,
    #[serde(default)]
    pub widths: Vec<usize>,
    /// CLI drivers identify a finding by a case id instead of (input, config, widths)
    #[serde(default)]
    pub case: String,
    #[serde(default)]
    pub note: String,
    #[serde(default)]
    pub class: String,
}
fn known() -> String {
    "known".to_string()
}

pub fn load_findings(path: &str, prop: &str) -> Vec<Finding> {
    let mut out = vec![];
    if let Ok(s) = std::fs::read_to_string(path) {
        for line in s.lines() {
            let line = line.trim();
            if line.is_empty() || line.starts_with('#') || line.starts_with("fixed:") {
                continue;
            }
            match serde_json::from_str::<Finding>(line) {
                Ok(f) => {
                    if f.property == prop && f.status == "known" {
                        out.push(f)
                    }
                }
                Err(e) => {
                    eprintln!("known_findings: bad line ({e}): {line}");
                    std::process::exit(2);
                }
            }
        }
    }
    out
}

pub struct RunResult {
    pub violations: Vec<Violation>,
    pub counters: BTreeMap<String, u64>,
    pub samples: Vec<Value>,
    pub distinct: BTreeSet<u64>,
    pub crashed_units: Vec<usize>,
    pub timeouts: Vec<usize>,
    pub wall: f64,
}

/// Spawn `n` workers of ourselves, collect their streams; a worker that dies
/// is restarted past the unit it was working on (recorded in `crashed_units`).
/// Write the units round-robin into `nshards` files of JSON lines under `dir`.
pub fn write_shards(units: &[Unit], nshards: usize, dir: &str) -> std::io::Result<()> {
    std::fs::create_dir_all(dir)?;
    let mut files = vec![];
    for k in 0..nshards {
        files.push(std::io::BufWriter::new(std::fs::File::create(format!("{dir}/shard{k}.jsonl"))?));
    }
    for (i, u) in units.iter().enumerate() {
        let f = &mut files[i % nshards];
        serde_json::to_writer(&mut *f, &json!({"i": i, "u": u}))?;
        f.write_all(b"\n")?;
    }
    for mut f in files {
        f.flush()?;
    }
    Ok(())
}

pub fn run_sharded(prop_id: &str, tier: Tier, nshards: usize, nunits: usize, shard_dir: Option<&str>) -> RunResult {
    let start = Instant::now();
    let exe = std::env::current_exe().unwrap();
    let mut res = RunResult {
        violations: vec![],
        counters: BTreeMap::new(),
        samples: vec![],
        distinct: BTreeSet::new(),
        crashed_units: vec![],
        timeouts: vec![],
        wall: 0.0,
    };
    let results: Vec<_> = std::thread::scope(|s| {
        let handles: Vec<_> = (0..nshards)
            .map(|shard| {
                let exe = exe.clone();
                s.spawn(move || {
                    let mut violations = vec![];
                    let mut counters: BTreeMap<String, u64> = BTreeMap::new();
                    let mut samples = vec![];
                    let mut distinct = BTreeSet::new();
                    let mut crashed: Vec<usize> = vec![];
                    let mut timeouts: Vec<usize> = vec![];
                    let mut harness_panics = 0usize;
                    let mut skip: Vec<usize> = vec![];
                    let mut done_upto: Option<usize> = None;
                    loop {
                        let mut cmd = Command::new(&exe);
                        cmd.arg("worker")
                            .arg(prop_id)
                            .arg(tier.name())
                            .arg(shard.to_string())
                            .arg(nshards.to_string())
                            .arg(
                                skip.iter()
                                    .map(|x| x.to_string())
                                    .collect::<Vec<_>>()
                                    .join(","),
                            )
                            .arg(done_upto.map(|d| d.to_string()).unwrap_or_default())
                            .stdout(Stdio::piped())
                            .stderr(Stdio::null());
                        if let Some(d) = shard_dir {
                            cmd.env("VERIF_SHARD_DIR", d);
                        }
                        let mut child = cmd.spawn().expect("spawn worker");
                        let rd = BufReader::new(child.stdout.take().unwrap());
                        let mut last_begin: Option<usize> = None;
                        let mut finished = false;
                        for line in rd.lines() {
                            let Ok(line) = line else { break };
                            let Ok(v) = serde_json::from_str::<Value>(&line) else { continue };
                            match v["t"].as_str() {
                                Some("b") => last_begin = v["i"].as_u64().map(|x| x as usize),
                                Some("hp") => {
                                    eprintln!(
                                        "[vh] HARNESS PANIC on unit {}: {}",
                                        v["i"],
                                        v["msg"].as_str().unwrap_or("")
                                    );
                                    harness_panics += 1;
                                }
                                Some("timeout") => {
                                    if let Some(i) = v["i"].as_u64() {
                                        timeouts.push(i as usize);
                                    }
                                }
                                Some("v") => {
                                    if let Ok(vi) = serde_json::from_value::<Violation>(v["v"].clone()) {
                                        violations.push(vi);
                                    }
                                }
                                Some("c") => {
                                    finished = true;
                                    if let Some(m) = v["counters"].as_object() {
                                        for (k, n) in m {
                                            *counters.entry(k.clone()).or_insert(0) += n.as_u64().unwrap_or(0);
                                        }
                                    }
                                    if let Some(a) = v["samples"].as_array() {
                                        samples.extend(a.iter().cloned());
                                    }
                                    if let Some(a) = v["distinct"].as_array() {
                                        distinct.extend(a.iter().filter_map(|x| x.as_u64()));
                                    }
                                }
                                _ => {}
                            }
                        }
                        let _ = child.wait();
                        if finished {
                            break;
                        }
                        // the worker died while working on `last_begin`
                        match last_begin {
                            Some(i) if timeouts.contains(&i) => {
                                skip.push(i);
                                done_upto = Some(i);
                            }
                            Some(i) => {
                                crashed.push(i);
                                skip.push(i);
                                done_upto = Some(i);
                                if crashed.len() > 200 {
                                    break;
                                }
                            }
                            None => {
                                // died before starting anything: machinery failure
                                crashed.push(usize::MAX);
                                break;
                            }
                        }
                    }
                    if harness_panics > 0 {
                        crashed.push(usize::MAX);
                    }
                    (violations, counters, samples, distinct, crashed, timeouts)
                })
            })
            .collect();
        handles.into_iter().map(|h| h.join().unwrap()).collect()
    });
    for (v, c, s, d, cr, to) in results {
        res.timeouts.extend(to);
        res.violations.extend(v);
        for (k, n) in c {
            *res.counters.entry(k).or_insert(0) += n;
        }
        res.samples.extend(s);
        res.distinct.extend(d);
        res.crashed_units.extend(cr);
    }
    let _ = nunits;
    res.violations.sort();
    res.wall = start.elapsed().as_secs_f64();
    res
}

/// Group violations by (input, config, what) -> widths; subtract known findings;
/// write replay files; print the protocol lines. Returns number of new violations.
pub fn report(
    prop_id: &str,
    violations: &[Violation],
    findings: &[Finding],
    verif_root: &str,
) -> (usize, usize, Vec<Value>) {
    let mut groups: BTreeMap<(String, String, String), (Vec<usize>, String, String)> = BTreeMap::new();
    for v in violations {
        let e = groups
            .entry((v.input.clone(), v.config.clone(), v.what.clone()))
            .or_insert_with(|| (vec![], v.detail.clone(), v.unit.clone()));
        if !e.0.contains(&v.width) {
            e.0.push(v.width);
        }
    }
    let mut new = 0usize;
    let mut known_hits = 0usize;
    let mut proposals = vec![];
    let mut printed_known: BTreeSet<String> = BTreeSet::new();
    for ((input, config, what), (mut widths, detail, unit)) in groups {
        widths.sort();
        let f = findings
            .iter()
            .find(|f| f.input == input && f.config == config && f.what == what);
        let unlisted: Vec<usize> = match f {
            Some(f) => widths.iter().copied().filter(|w| !f.widths.contains(w)).collect(),
            None => widths.clone(),
        };
        if let Some(f) = f {
            if unlisted.len() < widths.len() {
                known_hits += 1;
                let line = format!(
                    "KNOWN-FINDING: property={} {} [{}] input={:?} config={:?}",
                    prop_id,
                    what,
                    if f.class.is_empty() { &f.note } else { &f.class },
                    shorten(&input, 70),
                    config
                );
                if printed_known.insert(line.clone()) {
                    println!("{line}");
                }
            }
        }
        if !unlisted.is_empty() {
            new += 1;
            let h = hash64(&format!("{input}\u{0}{config}\u{0}{what}"));
            let dir = format!("{verif_root}/replay/{prop_id}");
            let _ = std::fs::create_dir_all(&dir);
            let path = format!("{dir}/{h:016x}.json");
            let body = json!({
                "property": prop_id, "unit": unit, "input": input, "config": config,
                "what": what, "widths": unlisted, "all_failing_widths": widths, "detail": detail,
            });
            let _ = std::fs::write(&path, serde_json::to_string_pretty(&body).unwrap());
            if new <= 40 {
                println!("VIOLATION property={prop_id} replay={path}");
                println!("  what={what} unit={unit} config={config:?} widths={}", width_ranges(&unlisted));
            }
            proposals.push(json!({
                "property": prop_id, "status": "known", "input": input, "config": config,
                "what": what, "widths": widths, "note": "", "class": "",
            }));
        }
    }
    if new > 40 {
        println!("... and {} more violations (replay files written)", new - 40);
    }
    (new, known_hits, proposals)
}

pub fn shorten(s: &str, n: usize) -> String {
    let s = s.replace('\n', "\\n");
    if s.chars().count() <= n {
        s
    } else {
        let t: String = s.chars().take(n).collect();
        format!("{t}...")
    }
}

pub fn width_ranges(ws: &[usize]) -> String {
    let mut out = vec![];
    let mut i = 0;
    while i < ws.len() {
        let mut j = i;
        while j + 1 < ws.len() && ws[j + 1] == ws[j] + 1 {
            j += 1;
        }
        if j > i {
            out.push(format!("{}-{}", ws[i], ws[j]));
        } else {
            out.push(format!("{}", ws[i]));
        }
        i = j + 1;
    }
    out.join(",")
}

#[allow(clippy::too_many_arguments)]
pub fn write_evidence(
    verif_root: &str,
    prop: &dyn Prop,
    tier: Tier,
    res: &RunResult,
    nunits: usize,
    new_violations: usize,
    known_hits: usize,
    extra: Value,
) {
    let evaluations = res.counters.get("format_calls").copied().unwrap_or(0).max(
        res.counters.get("evaluations").copied().unwrap_or(0),
    );
    let mut coverage = json!({
        "evaluations": evaluations,
        "distinct_nontrivial": res.distinct.len(),
        "rule": prop.rule(),
        "samples": res.samples.iter().take(8).collect::<Vec<_>>(),
        "exhaustive": prop.exhaustive(tier) && res.crashed_units.is_empty() && res.timeouts.is_empty(),
        "units_without_verdict_time_limit": res.timeouts.len(),
        "units": nunits,
        "counters": res.counters,
        "known_findings_reproduced": known_hits,
        "worker_crashes": res.crashed_units.len(),
    });
    if prop.level() == "model_checking" {
        coverage["states"] = json!(res.counters.get("states").copied().unwrap_or(res.distinct.len() as u64).max(1));
        coverage["transitions"] = json!(res.counters.get("transitions").copied().unwrap_or(evaluations).max(1));
        coverage["traces_validated_against_impl"] = json!(res.counters.get("traces").copied().unwrap_or(nunits as u64));
    }
    if let Some(m) = extra.as_object() {
        for (k, v) in m {
            coverage[k] = v.clone();
        }
    }
    let ev = json!({
        "property_id": prop.id(),
        "tier": tier.name(),
        "seed": std::env::var("VERIF_SEED").ok().and_then(|s| s.parse::<i64>().ok()).unwrap_or(0),
        "level": prop.level(),
        "coverage": coverage,
        "assumptions": prop.assumptions(),
        "wall_s": res.wall,
        "violations": new_violations,
    });
    let dir = format!("{verif_root}/evidence");
    let _ = std::fs::create_dir_all(&dir);
    std::fs::write(
        format!("{dir}/{}.json", prop.id()),
        serde_json::to_string_pretty(&ev).unwrap(),
    )
    .expect("write evidence");
}
