//! Node positions of a program, taken from the independent parse: items,
//! statements and list elements with their byte spans. Used to place
//! comments at exactly the positions C02/C03 claim, to track item spans
//! (C17), skipped nodes (C04) and blank-line gaps (C08).

use rustc_ast::visit::{self, AssocCtxt, FnKind, Visitor};
use rustc_ast::{ast, token};
use rustc_session::parse::ParseSess;
use rustc_span::Span;

#[derive(Debug, Clone, Copy, PartialEq, Eq, Hash, PartialOrd, Ord)]
pub enum Kind {
    Item,
    AssocItem,
    ForeignItem,
    Stmt,
    Field,
    Variant,
    Arm,
    Param,
    Arg,
}

#[derive(Debug, Clone)]
pub struct Node {
    pub kind: Kind,
    /// start, including outer attributes / doc comments
    pub lo: usize,
    pub hi: usize,
    /// nesting depth of blocks / item bodies around the node
    pub depth: usize,
    /// inside a function body (any depth)
    pub in_fn: bool,
    /// index of the enclosing list (elements of one list share it)
    pub list: usize,
    /// statement is an item / expression / let / macro
    pub stmt_kind: u8,
    /// item kind name (for reorderable-run detection)
    pub item_kind: &'static str,
}

pub struct Collector<'a> {
    psess: &'a ParseSess,
    pub nodes: Vec<Node>,
    depth: usize,
    in_fn: usize,
    next_list: usize,
    cur_list: usize,
}

pub fn span_off(psess: &ParseSess, sp: Span) -> (usize, usize) {
    let sm = psess.source_map();
    let lo = sm.lookup_byte_offset(sp.lo());
    let hi = sm.lookup_byte_offset(sp.hi());
    (lo.pos.0 as usize, hi.pos.0 as usize)
}

fn attrs_lo(psess: &ParseSess, attrs: &[ast::Attribute], sp: Span) -> (usize, usize) {
    let (mut lo, hi) = span_off(psess, sp);
    for a in attrs {
        if a.style == ast::AttrStyle::Outer {
            let (alo, _) = span_off(psess, a.span);
            if alo < lo {
                lo = alo;
            }
        }
    }
    (lo, hi)
}

pub fn item_kind_name(k: &ast::ItemKind) -> &'static str {
    use ast::ItemKind::*;
    match k {
        ExternCrate(..) => "extern_crate",
        Use(..) => "use",
        Static(..) => "static",
        Const(..) => "const",
        Fn(..) => "fn",
        Mod(_, _, ast::ModKind::Unloaded) => "mod_decl",
        Mod(..) => "mod",
        ForeignMod(..) => "foreign_mod",
        GlobalAsm(..) => "global_asm",
        TyAlias(..) => "type",
        Enum(..) => "enum",
        Struct(..) => "struct",
        Union(..) => "union",
        Trait(..) => "trait",
        TraitAlias(..) => "trait_alias",
        Impl(..) => "impl",
        MacCall(..) => "mac_call",
        MacroDef(..) => "macro_def",
        Delegation(..) | DelegationMac(..) => "delegation",
    }
}

impl<'a> Collector<'a> {
    pub fn new(psess: &'a ParseSess) -> Self {
        Collector {
            psess,
            nodes: vec![],
            depth: 0,
            in_fn: 0,
            next_list: 1,
            cur_list: 0,
        }
    }
    fn push(&mut self, kind: Kind, lo: usize, hi: usize, stmt_kind: u8, item_kind: &'static str) {
        if lo >= hi {
            return;
        }
        self.nodes.push(Node {
            kind,
            lo,
            hi,
            depth: self.depth,
            in_fn: self.in_fn > 0,
            list: self.cur_list,
            stmt_kind,
            item_kind,
        });
    }
    fn with_list<R>(&mut self, f: impl FnOnce(&mut Self) -> R) -> R {
        let saved = self.cur_list;
        self.cur_list = self.next_list;
        self.next_list += 1;
        self.depth += 1;
        let r = f(self);
        self.depth -= 1;
        self.cur_list = saved;
        r
    }
}

impl<'a, 'ast> Visitor<'ast> for Collector<'a> {
    fn visit_item(&mut self, i: &'ast ast::Item) {
        let (lo, hi) = attrs_lo(self.psess, &i.attrs, i.span);
        self.push(Kind::Item, lo, hi, 0, item_kind_name(&i.kind));
        self.with_list(|s| visit::walk_item(s, i));
    }
    fn visit_assoc_item(&mut self, i: &'ast ast::AssocItem, ctxt: AssocCtxt) {
        let (lo, hi) = attrs_lo(self.psess, &i.attrs, i.span);
        self.push(Kind::AssocItem, lo, hi, 0, "assoc");
        self.with_list(|s| visit::walk_assoc_item(s, i, ctxt));
    }
    fn visit_foreign_item(&mut self, i: &'ast ast::ForeignItem) {
        let (lo, hi) = attrs_lo(self.psess, &i.attrs, i.span);
        self.push(Kind::ForeignItem, lo, hi, 0, "foreign");
        self.with_list(|s| visit::walk_item(s, i));
    }
    fn visit_fn(&mut self, fk: FnKind<'ast>, _: Span, _: ast::NodeId) {
        // parameters form one list; the body is "inside a function"
        match fk {
            FnKind::Fn(_, _, f) => {
                self.visit_generics(&f.generics);
                self.with_list(|s| {
                    for p in &f.sig.decl.inputs {
                        let (lo, hi) = attrs_lo(s.psess, &p.attrs, p.span);
                        s.push(Kind::Param, lo, hi, 0, "");
                    }
                });
                visit::walk_fn_decl(self, &f.sig.decl);
                if let Some(b) = &f.body {
                    self.in_fn += 1;
                    self.visit_block(b);
                    self.in_fn -= 1;
                }
            }
            FnKind::Closure(_, _, decl, body) => {
                visit::walk_fn_decl(self, decl);
                self.visit_expr(body);
            }
        }
    }
    fn visit_block(&mut self, b: &'ast ast::Block) {
        self.with_list(|s| {
            for st in &b.stmts {
                let (sp, attrs, k): (Span, &[ast::Attribute], u8) = match &st.kind {
                    ast::StmtKind::Let(l) => (st.span, &l.attrs, 1),
                    ast::StmtKind::Item(i) => (st.span, &i.attrs, 2),
                    ast::StmtKind::Expr(e) => (st.span, &e.attrs, 3),
                    ast::StmtKind::Semi(e) => (st.span, &e.attrs, 4),
                    ast::StmtKind::Empty => (st.span, &[], 5),
                    ast::StmtKind::MacCall(m) => (st.span, &m.attrs, 6),
                };
                let (lo, hi) = attrs_lo(s.psess, attrs, sp);
                if k != 2 {
                    s.push(Kind::Stmt, lo, hi, k, "");
                }
                s.visit_stmt(st);
            }
        });
    }
    fn visit_variant_data(&mut self, vd: &'ast ast::VariantData) {
        self.with_list(|s| {
            for f in vd.fields() {
                let (lo, hi) = attrs_lo(s.psess, &f.attrs, f.span);
                s.push(Kind::Field, lo, hi, 0, "");
            }
            visit::walk_struct_def(s, vd)
        });
    }
    fn visit_enum_def(&mut self, ed: &'ast ast::EnumDef) {
        self.with_list(|s| {
            for v in &ed.variants {
                let (lo, hi) = attrs_lo(s.psess, &v.attrs, v.span);
                s.push(Kind::Variant, lo, hi, 0, "");
            }
        });
        visit::walk_enum_def(self, ed);
    }
    fn visit_expr(&mut self, e: &'ast ast::Expr) {
        match &e.kind {
            ast::ExprKind::Match(_, arms, _) => {
                self.with_list(|s| {
                    for a in arms {
                        let (lo, hi) = attrs_lo(s.psess, &a.attrs, a.span);
                        s.push(Kind::Arm, lo, hi, 0, "");
                    }
                });
            }
            ast::ExprKind::Call(_, args) => {
                self.with_list(|s| {
                    for a in args {
                        let (lo, hi) = attrs_lo(s.psess, &a.attrs, a.span);
                        s.push(Kind::Arg, lo, hi, 0, "");
                    }
                });
            }
            ast::ExprKind::MethodCall(mc) => {
                self.with_list(|s| {
                    for a in &mc.args {
                        let (lo, hi) = attrs_lo(s.psess, &a.attrs, a.span);
                        s.push(Kind::Arg, lo, hi, 0, "");
                    }
                });
            }
            _ => {}
        }
        visit::walk_expr(self, e);
    }
}

pub fn collect(krate: &ast::Crate, psess: &ParseSess) -> Vec<Node> {
    let mut c = Collector::new(psess);
    visit::walk_crate(&mut c, krate);
    let _ = token::Delimiter::Brace;
    c.nodes
}
