//! Thin wrapper around the public rustfmt API: build a `Config` from a case
//! description, run `Session::format` on a text under `catch_unwind`, return
//! the emitted bytes plus everything the report exposes (hook H1).

use std::cell::RefCell;
use std::panic::{self, AssertUnwindSafe};

use rustfmt_nightly::verif_hooks::{self, ReportEntry};
use rustfmt_nightly::{Config, Edition, EmitMode, Input, Session, StyleEdition, Verbosity};
use serde::{Deserialize, Serialize};

/// Configuration of one case: style edition, parser edition and
/// `--config`-style overrides (applied in the listed order).
#[derive(Debug, Clone, PartialEq, Eq, Hash, Serialize, Deserialize, PartialOrd, Ord)]
pub struct Cfg {
    pub style_edition: u16,
    pub edition: u16,
    pub kv: Vec<(String, String)>,
}

impl Cfg {
    pub fn new(style_edition: u16) -> Cfg {
        Cfg {
            style_edition,
            edition: if style_edition >= 2024 { 2024 } else { 2021 },
            kv: vec![],
        }
    }
    pub fn with(mut self, k: &str, v: &str) -> Cfg {
        self.kv.push((k.to_string(), v.to_string()));
        self
    }
    pub fn with_edition(mut self, e: u16) -> Cfg {
        self.edition = e;
        self
    }
    pub fn label(&self) -> String {
        let mut s = format!("se{}/e{}", self.style_edition, self.edition);
        for (k, v) in &self.kv {
            s.push_str(&format!(" {k}={v}"));
        }
        s
    }
    pub fn get(&self, k: &str) -> Option<&str> {
        self.kv.iter().rev().find(|(kk, _)| kk == k).map(|(_, v)| v.as_str())
    }
}

pub fn style_edition(y: u16) -> StyleEdition {
    match y {
        2015 => StyleEdition::Edition2015,
        2018 => StyleEdition::Edition2018,
        2021 => StyleEdition::Edition2021,
        2024 => StyleEdition::Edition2024,
        2027 => StyleEdition::Edition2027,
        _ => panic!("bad style edition {y}"),
    }
}

pub fn edition(y: u16) -> Edition {
    match y {
        2015 => Edition::Edition2015,
        2018 => Edition::Edition2018,
        2021 => Edition::Edition2021,
        2024 => Edition::Edition2024,
        _ => panic!("bad edition {y}"),
    }
}

/// Build the `Config` the way `--style-edition S --edition E --config k=v,...`
/// does: defaults of the style edition, then overrides in order.
pub fn build_config(cfg: &Cfg, max_width: Option<usize>) -> Config {
    let mut c = Config::default_for_possible_style_edition(
        Some(style_edition(cfg.style_edition)),
        None,
        None,
    );
    c.set().style_edition(style_edition(cfg.style_edition));
    c.set().edition(edition(cfg.edition));
    c.set().emit_mode(EmitMode::Stdout);
    c.set().verbose(Verbosity::Quiet);
    c.set().show_parse_errors(false);
    if let Some(w) = max_width {
        c.override_value("max_width", &w.to_string());
    }
    for (k, v) in &cfg.kv {
        c.override_value(k, v);
    }
    c
}

#[derive(Debug, Clone, PartialEq, Eq)]
pub enum Status {
    /// `Ok(report)` and no parse error flag.
    Ok,
    /// `Ok(report)` with the parsing-error flag set (input rejected).
    ParseError,
    /// `Err(kind)`.
    Err(String),
    /// A panic escaped `Session::format`.
    Panic(String),
}

#[derive(Debug, Clone)]
pub struct FmtOut {
    pub status: Status,
    pub text: String,
    pub entries: Vec<ReportEntry>,
    /// operational, parsing, formatting, macro_format_failure, check, diff, unformatted
    pub flags: [bool; 7],
    pub non_formatted: Vec<(usize, usize)>,
    /// panic message if rendering the report for the terminal (what the binary does) panicked
    pub render_panic: Option<String>,
}

impl FmtOut {
    pub fn ok(&self) -> bool {
        self.status == Status::Ok
    }
    /// Formatted "without a reported error" in the sense of the quantifiers.
    pub fn clean(&self) -> bool {
        self.status == Status::Ok && self.entries.is_empty() && !self.flags[3]
    }
    pub fn has(&self, kind: &str) -> bool {
        self.entries.iter().any(|e| e.kind == kind)
    }
}

thread_local! {
    static LAST_PANIC: RefCell<String> = RefCell::new(String::new());
}

/// Silence panic output and remember the message + location of the last panic.
pub fn install_panic_hook() {
    panic::set_hook(Box::new(|info| {
        let msg = if let Some(s) = info.payload().downcast_ref::<&str>() {
            s.to_string()
        } else if let Some(s) = info.payload().downcast_ref::<String>() {
            s.clone()
        } else {
            "<non-string payload>".to_string()
        };
        let loc = info
            .location()
            .map(|l| format!("{}:{}", l.file(), l.line()))
            .unwrap_or_default();
        LAST_PANIC.with(|p| *p.borrow_mut() = format!("{loc}: {msg}"));
    }));
}

pub fn last_panic() -> String {
    LAST_PANIC.with(|p| p.borrow().clone())
}

pub static FORMAT_CALLS: std::sync::atomic::AtomicU64 = std::sync::atomic::AtomicU64::new(0);

pub fn run_format(text: &str, config: Config) -> FmtOut {
    FORMAT_CALLS.fetch_add(1, std::sync::atomic::Ordering::Relaxed);
    let mut out: Vec<u8> = Vec::with_capacity(text.len() * 2);
    let res = panic::catch_unwind(AssertUnwindSafe(|| {
        let mut session = Session::new(config, Some(&mut out));
        session.format(Input::Text(text.to_string()))
    }));
    match res {
        Err(_) => FmtOut {
            status: Status::Panic(last_panic()),
            text: String::new(),
            entries: vec![],
            flags: [false; 7],
            non_formatted: vec![],
            render_panic: None,
        },
        Ok(Err(e)) => FmtOut {
            status: Status::Err(e.to_string()),
            text: String::from_utf8_lossy(&out).into_owned(),
            entries: vec![],
            flags: [false; 7],
            non_formatted: vec![],
            render_panic: None,
        },
        Ok(Ok(report)) => {
            let flags = verif_hooks::report_flags(&report);
            // the binary prints the report through FormatReportFormatter: render it too
            let render_panic = if report.has_warnings() {
                let r = panic::catch_unwind(AssertUnwindSafe(|| {
                    format!("{}", rustfmt_nightly::FormatReportFormatterBuilder::new(&report).build())
                }));
                match r {
                    Ok(_) => None,
                    Err(_) => Some(last_panic()),
                }
            } else {
                None
            };
            FmtOut {
                status: if flags[1] { Status::ParseError } else { Status::Ok },
                text: String::from_utf8_lossy(&out).into_owned(),
                entries: verif_hooks::report_entries(&report),
                flags,
                non_formatted: verif_hooks::non_formatted_ranges(&report),
                render_panic,
            }
        }
    }
}

pub fn format(text: &str, cfg: &Cfg, width: usize) -> FmtOut {
    run_format(text, build_config(cfg, Some(width)))
}
