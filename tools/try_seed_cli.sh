#!/bin/bash
# Developer tool: run CLI drivers against the binaries of a seed worktree (which has its patch applied and
# built) WITHOUT touching /repo. Evidence files written by such a run are restored afterwards.
# usage: tools/try_seed_cli.sh <worktree> <driver.py>...
wt="$1"; shift
export VERIF_SYSROOT_LIB="$(cd /repo && rustc --print sysroot)/lib"
( cd "$wt" && git apply --check -R SEED/patch.diff 2>/dev/null || git apply SEED/patch.diff 2>/dev/null; CARGO_NET_OFFLINE=true cargo build --offline --bins -j 8 >/dev/null 2>&1 ) 2>/dev/null || { echo "build failed"; exit 2; }
export VERIF_DEV_SUBJECT_BIN_DIR="$wt/target/debug"
cd /verif
for d in "$@"; do
  id=$(basename "$d" .py | sed 's/_cli//' | tr a-z A-Z)
  cp evidence/$id.json /tmp/ev-$id.json.keep 2>/dev/null
  out=$(VERIF_TIER=quick python3 drivers/$d quick 2>&1); rc=$?
  cp /tmp/ev-$id.json.keep evidence/$id.json 2>/dev/null
  echo "[try_seed_cli] $d exit=$rc violations=$(echo "$out" | grep -c '^VIOLATION')"
  echo "$out" | grep -A1 "^VIOLATION" | grep "what=" | head -4 | cut -c1-220
done
