#!/usr/bin/env python3
"""Developer tool (never run by a check): list reviewed CLI-driver findings in known_findings.jsonl.

usage: accept_cli_findings.py <PROP> --what WHAT --class TEXT [--note TEXT] [--case-contains S]
Reads /verif/replay/<PROP>/*.json written by the last run of that driver.
"""
import argparse, glob, json, sys
ap = argparse.ArgumentParser()
ap.add_argument("prop")
ap.add_argument("--what", required=True)
ap.add_argument("--what-prefix", action="store_true")
ap.add_argument("--class", dest="cls", required=True)
ap.add_argument("--note", default="")
ap.add_argument("--case-contains", default=None)
a = ap.parse_args()
path = "/verif/known_findings.jsonl"
lines = open(path).read().splitlines()
have = set()
for l in lines:
    if l.startswith("{"):
        d = json.loads(l)
        if "case" in d:
            have.add((d["property"], d["case"], d["what"]))
n = 0
for f in sorted(glob.glob(f"/verif/replay/{a.prop}/*.json")):
    r = json.load(open(f))
    if "case" not in r:
        continue
    ok = r["what"].startswith(a.what) if a.what_prefix else r["what"] == a.what
    if not ok:
        continue
    if a.case_contains and a.case_contains not in r["case"]:
        continue
    k = (a.prop, r["case"], r["what"])
    if k in have:
        continue
    have.add(k)
    lines.append(json.dumps({"property": a.prop, "status": "known", "case": r["case"], "what": r["what"], "class": a.cls, "note": a.note}, ensure_ascii=False))
    n += 1
open(path, "w").write("\n".join(lines) + "\n")
print(f"{n} entries accepted", file=sys.stderr)
