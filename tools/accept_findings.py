#!/usr/bin/env python3
"""Developer tool (never run by a check): append reviewed findings to known_findings.jsonl.

usage: accept_findings.py <proposals.jsonl> --class TEXT [--note TEXT] [--match SUBSTR-in-detail/what/input]
Entries already listed (same property/input/config/what) are merged (widths united).
"""
import argparse, json, sys
ap = argparse.ArgumentParser()
ap.add_argument("proposals")
ap.add_argument("--class", dest="cls", required=True)
ap.add_argument("--note", default="")
ap.add_argument("--what", default=None, help="only proposals with this 'what'")
ap.add_argument("--input-contains", default=None)
ap.add_argument("--dry", action="store_true")
a = ap.parse_args()
path = "/verif/known_findings.jsonl"
existing = []
try:
    for line in open(path):
        existing.append(line.rstrip("\n"))
except FileNotFoundError:
    pass
index = {}
for i, line in enumerate(existing):
    if line.startswith("{"):
        d = json.loads(line)
        index[(d["property"], d.get("input"), d.get("config"), d.get("what"), d.get("case"))] = i
n = 0
for line in open(a.proposals):
    d = json.loads(line)
    if a.what and d["what"] != a.what:
        continue
    if a.input_contains and a.input_contains not in d.get("input", ""):
        continue
    d["class"] = a.cls
    d["note"] = a.note
    k = (d["property"], d.get("input"), d.get("config"), d.get("what"), d.get("case"))
    if k in index:
        old = json.loads(existing[index[k]])
        old["widths"] = sorted(set(old.get("widths", [])) | set(d.get("widths", [])))
        existing[index[k]] = json.dumps(old, ensure_ascii=False)
    else:
        index[k] = len(existing)
        existing.append(json.dumps(d, ensure_ascii=False))
    n += 1
print(f"{n} entries accepted", file=sys.stderr)
if not a.dry:
    open(path, "w").write("\n".join(existing) + "\n")
