#!/bin/bash
# Developer tool: confirm a seeded change in its scratch worktree:
#  with the patch: demo fails, test suite passes; without it: demo passes.
# usage: tools/confirm_seed.sh <worktree>   (expects <worktree>/SEED/{patch.diff,demo.sh})
wt="$1"; cd "$wt" || exit 2
export CARGO_NET_OFFLINE=true
export LD_LIBRARY_PATH="$(rustc --print sysroot)/lib"
out="$wt/SEED/confirm.txt"; : > "$out"
git checkout -q -- . 2>/dev/null
git apply SEED/patch.diff || { echo "patch_applies=no" >> "$out"; exit 1; }
echo "patch_applies=yes" >> "$out"
( bash SEED/demo.sh > SEED/demo_with.log 2>&1 ); echo "demo_with_patch_exit=$?" >> "$out"
cargo test --offline > SEED/tests_with.log 2>&1; echo "tests_with_patch_exit=$?" >> "$out"
grep -E "^test result" SEED/tests_with.log | tr '\n' ';' >> "$out"; echo >> "$out"
git apply -R SEED/patch.diff
( bash SEED/demo.sh > SEED/demo_without.log 2>&1 ); echo "demo_without_patch_exit=$?" >> "$out"
git apply SEED/patch.diff
cat "$out"
