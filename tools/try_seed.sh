#!/bin/bash
# Developer tool: apply a seeded change to /repo, run the given checks, revert.
# usage: tools/try_seed.sh <patch.diff> [--vh-only] <ID>...
# --vh-only: rebuild only the harness and run the in-process half (does not touch .build/subject)
set -u
patch="$1"; shift
vhonly=0
if [ "${1:-}" = "--vh-only" ]; then vhonly=1; shift; fi
cd /repo || exit 2
if ! git diff --quiet; then echo "/repo has uncommitted changes" >&2; exit 2; fi
git apply "$patch" || { echo "patch does not apply" >&2; exit 2; }
trap 'cd /repo && git checkout -- . && git clean -fdq src tests 2>/dev/null; echo "[try_seed] reverted"' EXIT
cd /verif
for id in "$@"; do
  start=$(date +%s)
  if [ $vhonly = 1 ]; then
    ( cd harness && cargo build --offline 2>/dev/null ) || { echo "$id: harness build failed (seed does not compile with hooks?)"; continue; }
    out=$(bin/vh run "$id" quick 2>&1); rc=$?
  else
    out=$(./check "$id" quick 2>&1); rc=$?
  fi
  nviol=$(echo "$out" | grep -c "^VIOLATION")
  echo "[try_seed] $id exit=$rc violations_printed=$nviol time=$(( $(date +%s) - start ))s"
  echo "$out" | grep -A1 "^VIOLATION" | head -8 | cut -c1-200
done
